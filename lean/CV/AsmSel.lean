/-
  CV.AsmSel — port of `GeneratorState::asm` (src/generate/generate_asm.rs): operand text,
  `nb_bytes`, cycle annotations, rejections.

  Two layers, so that the size/mode theorems are a finite case analysis:
    * `selA`   : decides from the *abstract* input (mnemonic, operand kind, variable type,
                 const, zero-page?, size = 1?, eight_bits, high_byte) the form of the operand,
                 nb_bytes, cycles, or an error — offsets and names play no role here;
    * `asmSel` : renders the text from the form, the name and the offsets (port offsets of
                 split-port memories included).
-/
import CV.Asm
namespace CV

inductive VType where | char | short | charPtr | charPtrPtr | shortPtr
  deriving DecidableEq, Repr, Inhabited

inductive VMem where
  | rom | zeropage | superchip | display | frequency | ramchip | ramplus | onchip | dummy
  deriving DecidableEq, Repr, Inhabited

inductive Scheme where | k4 | e3 | e3p
  deriving DecidableEq, Repr, Inhabited

structure VarInfo where
  name : String
  ty : VType
  const : Bool
  mem : VMem
  size : Nat
  deriving Repr, Inhabited

/-- operand kinds of `ExprType` -/
inductive OKind where
  | nothing | imm | tmp | abs | absX | absY | acc | label | regX | regY
  deriving DecidableEq, Repr, Inhabited

/-- how much is added to the offset for the high byte -/
inductive Plus where | p0 | p1 | psize deriving DecidableEq, Repr
/-- when the offset is printed -/
inductive Rule where | pos | nz deriving DecidableEq, Repr

/-- form of the operand text -/
inductive Form where
  | none                 -- ""
  | immVal               -- #<masked value>
  | immZero              -- "#0"
  | immLo | immHi        -- #<(v+off)  #>(v+off)
  | tmp                  -- cctmp
  | dir (p : Plus) (r : Rule)
  | idxX (p : Plus)
  | idxY (p : Plus)
  | indY
  | label
  deriving DecidableEq, Repr

inductive SelA where
  | ok (f : Form) (nb cyc : Nat) (alt : Option Nat)
  | nothing                      -- `LDA` of the accumulator: nothing emitted
  | redirect (mn : Mn)           -- `LDX/LDY` of the accumulator: `TAX/TAY`
  | err
  | panic                        -- `unreachable!()`
  deriving DecidableEq, Repr

def baseCycles : Mn → Nat
  | .PHA | .PLA => 3
  | .INC | .DEC => 4
  | .RTS => 6
  | _ => 2

def isStore : Mn → Bool
  | .STA | .STX | .STY => true
  | _ => false

/-- abstract decision layer -/
def selA (mn : Mn) (k : OKind) (ty : VType) (const zp size1 eight high : Bool) : SelA :=
  let c := baseCycles mn
  match k with
  | .label =>
    let nb := match mn with | .JMP | .JSR => 3 | _ => 2
    (match mn with
     | .JMP => .ok .label nb 3 none
     | .JSR => .ok .label nb 6 none
     | _ => .ok .label nb 2 (some 3))
  | .imm => .ok .immVal 2 c none
  | .tmp => .ok .tmp 2 (c + 1) none
  | .acc =>
    (match mn with
     | .LDA => .nothing
     | .LDX => .redirect .TAX
     | .LDY => .redirect .TAY
     | _ => .err)
  | .nothing => .ok .none 1 c none
  | .regX | .regY => .panic
  | .abs =>
    let mem (p : Plus) (r : Rule) : SelA :=
      if zp then .ok (.dir p r) 2 (c + 1) none else .ok (.dir p r) 3 (c + 2) none
    (match ty with
     | .char =>
       if !eight then .ok (if high then .immHi else .immLo) 2 c none
       else if high then .ok .immZero 2 c none
       else mem .p0 .pos
     | .short =>
       if eight && high then .ok .immZero 2 c none
       else mem (if high then .p1 else .p0) .nz
     | .charPtr =>
       if !eight && const then .ok (if high then .immHi else .immLo) 2 c none
       else if high && eight then .ok .immZero 2 c none
       else if eight && !const then .err
       else mem (if high then .p1 else .p0) .nz
     | .charPtrPtr | .shortPtr =>
       .ok (.dir (if high then .psize else .p0) .pos) (if zp then 2 else 3) (c + 2) none)
  | .absY =>
    let plain (p : Plus) : SelA :=
      let cyc := c + 2
      let nb := if zp then (match mn with | .STX | .LDX => 2 | _ => 3) else 3
      let alt (cy : Nat) : Option Nat := if !zp then some (cy + 1) else none
      match mn with
      | .STA => .ok (.idxY p) nb (cyc + 1) (alt (cyc + 1))
      | .STY | .LDY | .CPY => .err
      | .CPX => .err
      | .STX => if !zp then .err else .ok (.idxY p) nb cyc (alt cyc)
      | _ => .ok (.idxY p) nb cyc (alt cyc)
    if ty == .charPtrPtr || ty == .shortPtr then plain (if high then .psize else .p0)
    else if high then .ok .immZero 2 c (if !zp then some (c + 1) else none)
    else if ty == .charPtr && !const then
      if size1 then
        if !zp then .err
        else
          let cyc := if mn == .STA then 6 else 5
          (match mn with
           | .STX | .STY | .LDX | .LDY | .CPX | .CPY => .err
           | _ => .ok .indY 2 cyc (some (cyc + 1)))
      else .err
    else plain .p0
  | .absX =>
    if ty == .charPtr && !const && size1 then .err
    else
      let ptrptr := ty == .charPtrPtr || ty == .shortPtr
      if high && !ptrptr then .ok .immZero 2 c (if !zp then some (c + 1) else none)
      else
        let p : Plus := if ptrptr && high then .psize else .p0
        let cyc := c + 2
        let cyc' := if !zp && mn == .STA then cyc + 1 else cyc
        let nb := if zp then 2 else 3
        match mn with
        | .STX | .LDX | .CPX => .err
        | .CPY => .err
        | .STY => if !zp then .err else .ok (.idxX p) nb cyc' (if !zp then some (cyc' + 1) else none)
        | _ => .ok (.idxX p) nb cyc' (if !zp then some (cyc' + 1) else none)

/-- offset added by split-port memories (reads of Superchip RAM are 0x80 above the writes;
    writes of 3E / 3E+ on-chip RAM are 0x400 / 0x200 above the reads) -/
def portOffset (mn : Mn) (mem : VMem) (sch : Scheme) : Nat :=
  match mem with
  | .superchip => if isStore mn then 0 else 0x80
  | .onchip =>
    (match sch with
     | .e3 => if isStore mn then 0x400 else 0
     | .e3p => if isStore mn then 0x200 else 0
     | .k4 => 0)
  | _ => 0

def showInt (i : Int) : String := if i < 0 then "-" ++ toString i.natAbs else toString i.natAbs

def plusVal (p : Plus) (size : Nat) : Int :=
  match p with | .p0 => 0 | .p1 => 1 | .psize => size

def withOff (name : String) (off : Int) (r : Rule) : String :=
  let pr := match r with | .pos => decide (off > 0) | .nz => decide (off ≠ 0)
  if pr then name ++ "+" ++ showInt off else name

inductive SelResult where
  | instr (i : Instr)
  | nothing
  | err
  | panic
  deriving Repr

/-- the full port: `off` is the `Absolute` offset or the `Immediate` value, `name` the label text
    for `label` operands -/
def asmSel (mn : Mn) (k : OKind) (v : VarInfo) (sch : Scheme) (eight : Bool) (off : Int)
    (high : Bool) (prot : Bool) : SelResult :=
  let zp := v.mem == .zeropage
  match selA mn k v.ty v.const zp (v.size == 1) eight high with
  | .err => .err
  | .panic => .panic
  | .nothing => .nothing
  | .redirect m => .instr { mn := m, opd := "", cycles := baseCycles m, cyclesAlt := none, nbBytes := 1, prot := prot }
  | .ok f nb cyc alt =>
    let po : Int := portOffset mn v.mem sch
    let base : Int := match k with | .abs => off + po | _ => po
    let text : String :=
      match f with
      | .none => ""
      | .immVal => "#" ++ showInt (if high then (off.fdiv 256).emod 256 else off.emod 256)
      | .immZero => "#0"
      | .immLo => if base ≠ 0 then "#<(" ++ v.name ++ "+" ++ showInt base ++ ")" else "#<" ++ v.name
      | .immHi => if base ≠ 0 then "#>(" ++ v.name ++ "+" ++ showInt base ++ ")" else "#>" ++ v.name
      | .tmp => "cctmp"
      | .dir p r => withOff v.name (base + plusVal p v.size) r
      | .idxX p => withOff v.name (base + plusVal p v.size) .pos ++ ",X"
      | .idxY p => withOff v.name (base + plusVal p v.size) .pos ++ ",Y"
      | .indY => if base > 0 then "(" ++ v.name ++ "+" ++ showInt base ++ "),Y" else "(" ++ v.name ++ "),Y"
      | .label => v.name
    .instr { mn := mn, opd := text, cycles := cyc, cyclesAlt := alt, nbBytes := nb, prot := prot }

/-! ### what the independent assembler does with a form -/

/-- addressing mode dasm selects for an operand of form `f`, given whether its value is in page
    zero; `none` = the 6502 has no such instruction -/
def modeOfForm (mn : Mn) (f : Form) (zp : Bool) : Option Mode :=
  let pick (zm am : Mode) : Option Mode :=
    if zp && legal mn zm then some zm else if legal mn am then some am else none
  match f with
  | .none => if legal mn .impl then some .impl else if legal mn .acc then some .acc else none
  | .immVal | .immZero | .immLo | .immHi => if legal mn .imm then some .imm else none
  | .tmp => if legal mn .zp then some .zp else if legal mn .abs then some .abs else none  -- cctmp lives in page zero
  | .dir _ _ => pick .zp .abs
  | .idxX _ => pick .zpX .absX
  | .idxY _ => pick .zpY .absY
  | .indY => if legal mn .indY then some .indY else none
  | .label => if mn.isCondBranch then some .rel else if legal mn .abs then some .abs else none

/-- (mnemonic, form) pairs `asm()` lets through although the 6502 has no such instruction -/
def unguarded (mn : Mn) (f : Form) (zp : Bool) : Bool := (modeOfForm mn f zp).isNone

end CV

namespace CV

inductive MnClass where | read | store | rmw | implied | flow | other
  deriving DecidableEq, Repr

def Mn.cls : Mn → MnClass
  | .LDA | .LDX | .LDY | .ADC | .SBC | .EOR | .AND | .ORA | .CMP | .CPX | .CPY | .BIT => .read
  | .STA | .STX | .STY => .store
  | .INC | .DEC | .ASL | .LSR | .ROL | .ROR => .rmw
  | .BCC | .BCS | .BEQ | .BMI | .BNE | .BPL | .BVC | .BVS | .JMP | .JSR => .flow
  | _ => .implied

/-- (mnemonic, operand form) pairs that make sense at all: the generator's contract with `asm()` -/
def applicable (mn : Mn) (f : Form) : Bool :=
  match mn.cls, f with
  | .read, .immVal | .read, .immZero | .read, .immLo | .read, .immHi => true
  | .read, .tmp | .read, .dir _ _ | .read, .idxX _ | .read, .idxY _ | .read, .indY => true
  | .store, .tmp | .store, .dir _ _ | .store, .idxX _ | .store, .idxY _ | .store, .indY => true
  | .rmw, .none | .rmw, .tmp | .rmw, .dir _ _ | .rmw, .idxX _ | .rmw, .idxY _ | .rmw, .indY => true
  | .implied, .none => true
  | .flow, .label => true
  | _, _ => false

end CV
