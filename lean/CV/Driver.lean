/-
  CV.Driver — request dispatch for the model driver.
-/
import CV.Proto
import CV.Exec
import CV.Branch
import CV.AsmSel
import CV.Inline
import CV.Opt
import CV.Gen.Tables
import CV.Cpp
import CV.Lit
import CV.Calc
import CV.CallGraph
import CV.CSemParse
import CV.GenFlat
import CV.GenStruct
import CV.Valid
namespace CV


/-! tokens of a structured program (C01 stage 2): prefix notation
    stmt := asg:.. | bin:.. | oas:.. | inc:v | dec:v | skip | { stmt* } | if cond stmt | ife cond stmt stmt
          | wh cond stmt | do stmt cond | for flat cond flat stmt
    cond := cmp:<eq|ne|lt|ge|gt|le>:<atom>:<atom> | t:<v> | nt:<v>          atom = c<n> | v<name> -/
namespace GSParse
open GenFlat GenReg GenStruct

/-- `e<array>@<subscript>`: subscript `X`, `Y` or a literal -/
def elem (t : String) : Option (String × Ix) :=
  match (t.drop 1).toString.splitOn "@" with
  | [name, "X"] => some (name, .x)
  | [name, "Y"] => some (name, .y)
  | [name, n] => n.toNat?.map fun k => (name, .k k)
  | _ => none

def atom (t : String) : Option Atom :=
  if t.startsWith "c" then ((t.drop 1).toString.toNat?).bind fun n => if n < 256 then some (Atom.const (BitVec.ofNat 8 n)) else none
  else if t.startsWith "v" then some (Atom.var (t.drop 1).toString)
  else if t.startsWith "e" then (elem t).map fun p => Atom.el p.1 p.2
  else none

def bop (t : String) : Option BOp :=
  if t == "add" then some .add else if t == "sub" then some .sub else if t == "and" then some .band
  else if t == "or" then some .bor else if t == "xor" then some .bxor else none

def cop (t : String) : Option COp :=
  if t == "eq" then some .eq else if t == "ne" then some .ne else if t == "lt" then some .lt
  else if t == "ge" then some .ge else if t == "gt" then some .gt else if t == "le" then some .le else none

def ra (t : String) : Option RA :=
  if t == "rX" then some .x else if t == "rY" then some .y else (atom t).map RA.of

/-- an assignable operand: `rX`, `rY`, `v<name>` (a bare name is accepted as a variable, as in stage 1 tokens) -/
def lv (t : String) : Option LV :=
  if t == "rX" then some .x else if t == "rY" then some .y
  else if t.startsWith "v" then some (.var (t.drop 1).toString)
  else if t.startsWith "e" then (elem t).map fun p => LV.el p.1 p.2
  else none

/-- a 16-bit operand: `w<name>` (unsigned short variable), `k<n>` (constant), `b<name>` (unsigned char variable) -/
def wa (t : String) : Option WA :=
  if t.startsWith "w" then some (.wvar (t.drop 1).toString)
  else if t.startsWith "b" then some (.wbyte (t.drop 1).toString)
  else if t.startsWith "k" then ((t.drop 1).toString.toNat?).bind fun n => if n < 65536 then some (.wconst (BitVec.ofNat 16 n)) else none
  else none

/-- a linear expression in prefix form: `P a op b` (pair) | `L <e> op y` (e ∘ y) | `R x op <e>` (x ∘ e) -/
def lexpr : Nat → List String → Option (LExpr × List String)
  | 0, _ => none
  | f + 1, "P" :: a :: o :: b :: r => do let a ← ra a; let o ← bop o; let b ← ra b; some (.pair a o b, r)
  | f + 1, "L" :: r => do
    let (e, r1) ← lexpr f r
    match r1 with
    | o :: y :: r2 => do let o ← bop o; let y ← ra y; some (.left e o y, r2)
    | _ => none
  | f + 1, "R" :: x :: o :: r => do
    let x ← ra x; let o ← bop o
    let (e, r1) ← lexpr f r
    some (.right x o e, r1)
  | _, _ => none

/-- an expression tree in prefix form: `A <operand>` | `B <op> <e> <e>` | `S <l|r> <count> <e>` -/
def gexpr : Nat → List String → Option (GenReg.GExpr × List String)
  | 0, _ => none
  | _ + 1, "A" :: a :: r => (ra a).map fun a => (.atom a, r)
  | f + 1, "B" :: o :: r => do
    let o ← bop o
    let (l, r1) ← gexpr f r
    let (rr, r2) ← gexpr f r1
    some (.bin l o rr, r2)
  | f + 1, "S" :: d :: k :: r => do
    -- S <l|r> <count> <e> : (e) << count / (e) >> count
    let left ← (if d == "l" then some true else if d == "r" then some false else none)
    let k ← k.toNat?
    let (e, r1) ← gexpr f r
    some (.sh e left k, r1)
  | _, _ => none

/-- shapes the port leaves outside by design (reported as `outside`, not as a rejection): a node with two constant
    operands (folded by the generator) and `X | 0` / `0 | X` (no code at all) -/
def gexprFolds : GenReg.GExpr → Bool
  | .atom _ => false
  | .sh e _ k => gexprFolds e || decide (k > 7) || (match e with | .atom a => a.isConst | _ => false)
  | .bin l o r =>
    gexprFolds l || gexprFolds r ||
      (match l, r with
       | .atom a, .atom b =>
         (a.isConst && b.isConst) ||
           (o == .bor && ((a.isReg && b == .of (.const 0)) || (b.isReg && a == .of (.const 0))))
       | _, _ => false)

def flat (t : String) : Option RStmt :=
  match t.splitOn ":" with
  | "expr" :: v :: rest => do
    -- expr:<lv>:<prefix form, `A:<operand>` | `B:<op>:<e>:<e>`>
    let v ← lv v
    let (e, r) ← gexpr (rest.length + 1) rest
    if r.isEmpty then some (RStmt.expr v e) else none
  | "lin" :: v :: rest => do
    let v ← lv v
    let (e, r) ← lexpr (rest.length + 1) rest
    if r.isEmpty then some (RStmt.lin v e) else none
  | "chain" :: v :: a :: o1 :: b1 :: rest =>
    -- chain:<lv>:<a>:<op1>:<b1>:<op2>:<b2>…
    let rec pairs : List String → Option (List (BOp × RA))
      | [] => some []
      | o :: b :: r => do let o ← bop o; let b ← ra b; let t ← pairs r; some ((o, b) :: t)
      | _ => none
    do let v ← lv v; let a ← ra a; let o1 ← bop o1; let b1 ← ra b1; let ops ← pairs rest; some (RStmt.chain v a o1 b1 ops)
  | ["wasg", s, a] => (wa a).map fun a => RStmt.asgW s a
  | ["wbin", s, o, a, b] => do let o ← bop o; let a ← wa a; let b ← wa b; some (RStmt.binW s o a b)
  | ["woas", s, o, a] => do let o ← bop o; let a ← wa a; some (RStmt.opasgW s o a)
  | ["asg", v, a] => do let v ← lv v; let a ← ra a; some (RStmt.asg v a)
  | ["bin", v, o, a, b] => do let v ← lv v; let o ← bop o; let a ← ra a; let b ← ra b; some (RStmt.bin v o a b)
  | ["oas", v, o, a] => do let v ← lv v; let o ← bop o; let a ← ra a; some (RStmt.opasg v o a)
  | ["inc", v] => (lv v).map RStmt.inc
  | ["dec", v] => (lv v).map RStmt.dec
  | _ => none

def condLeaf (t : String) : Option Cond :=
  match t.splitOn ":" with
  | ["cmp", o, a, b] => do let o ← cop o; let a ← ra a; let b ← ra b; some (Cond.cmp o a b)
  | ["t", v] => (lv v).map Cond.truth
  | ["nt", v] => (lv v).map Cond.nottruth
  | "cmpe" :: o :: b :: side :: rest => do
    -- cmpe:<op>:<b>:<L|R>:<tree in prefix form> : `(e) op b` (L) / `b op (e)` (R)
    let o ← cop o; let b ← atom b
    let (e, r) ← gexpr (rest.length + 1) rest
    if !r.isEmpty then none
    else if side == "L" then some (Cond.cmpE o e b true) else if side == "R" then some (Cond.cmpE o e b false) else none
  | "cmpr" :: o :: reg :: side :: rest => do
    -- cmpr:<op>:<rX|rY>:<L|R>:<tree> : `(e) op X` (L) / `X op (e)` (R)
    let o ← cop o
    let y ← (if reg == "rX" then some false else if reg == "rY" then some true else none)
    let (e, r) ← gexpr (rest.length + 1) rest
    if !r.isEmpty then none
    else if side == "L" then some (Cond.cmpR o e y true) else if side == "R" then some (Cond.cmpR o e y false) else none
  | ["wcmp", o, sv, w] => do
    -- wcmp:<eq|ne>:<16-bit variable>:<16-bit operand>
    let ne ← (if o == "ne" then some true else if o == "eq" then some false else none)
    let w ← wa w
    some (Cond.wcmp ne sv w)
  | "te" :: rest => do
    let (e, r) ← gexpr (rest.length + 1) rest
    if r.isEmpty then some (Cond.truthE e) else none
  | _ => none

/-- cond := and cond cond | or cond cond | not cond | leaf -/
def condP : Nat → List String → Option (Cond × List String)
  | 0, _ => none
  | _, [] => none
  | f + 1, t :: r =>
    if t == "and" then do
      let (a, r1) ← condP f r; let (b, r2) ← condP f r1; some (.and a b, r2)
    else if t == "or" then do
      let (a, r1) ← condP f r; let (b, r2) ← condP f r1; some (.or a b, r2)
    else if t == "not" then do
      let (a, r1) ← condP f r; some (.not a, r1)
    else (condLeaf t).map fun c => (c, r)

mutual
def stmt : Nat → List String → Option (SStmt × List String)
  | 0, _ => none
  | _, [] => none
  | f + 1, t :: r =>
    if t == "skip" then some (.skip, r)
    else if t.startsWith "winc:" then some (GenStruct.incW (t.drop 5).toString, r)
    else if t.startsWith "wdec:" then some (GenStruct.decW (t.drop 5).toString, r)
    else if t == "brk" then some (.brk, r)
    else if t == "cont" then some (.cont, r)
    else if t == "ifbrk" then do
      let (c, r1) ← condP f r; some (.ifBrk c, r1)
    else if t == "ifcont" then do
      let (c, r1) ← condP f r; some (.ifCont c, r1)
    else if t == "{" then block f r
    else if t == "if" then do
      let (c, r1) ← condP f r; let (b, r2) ← stmt f r1; some (.ifThen c b, r2)
    else if t == "ife" then do
      let (c, r1) ← condP f r; let (b, r2) ← stmt f r1; let (e, r3) ← stmt f r2; some (.ifElse c b e, r3)
    else if t == "wh" then do
      let (c, r1) ← condP f r; let (b, r2) ← stmt f r1; some (.while c b, r2)
    else if t == "do" then do
      let (b, r1) ← stmt f r
      let (c, r2) ← condP f r1
      some (.doWhile b c, r2)
    else if t == "for" then
      match r with
      | i :: r0 => do
        let i ← flat i
        let (c, r1) ← condP f r0
        match r1 with
        | u :: r2 => do
          let u ← flat u
          let (b, r3) ← stmt f r2
          some (.for i c u b, r3)
        | _ => none
      | _ => none
    else (flat t).map fun s => (.flat s, r)
def block : Nat → List String → Option (SStmt × List String)
  | 0, _ => none
  | _, [] => none
  | f + 1, t :: r =>
    if t == "}" then some (.skip, r)
    else do
      let (a, r1) ← stmt f (t :: r)
      let (b, r2) ← block f r1
      some ((match b with | .skip => a | b => .seq a b), r2)
end

/-- a whole function body: statements up to the end of the tokens -/
def program (toks : List String) : Option SStmt :=
  match block (2 * toks.length + 4) (toks ++ ["}"]) with
  | some (s, []) => some s
  | _ => none

end GSParse

structure LoadedProg where
  env : Env := []
  fns : Array Fn := #[]
  ports : List Port := []
  vlo : Nat := 0
  vhi : Nat := 0
  tids : List (String × Nat) := []     -- trace ids by content
  deriving Inhabited

structure DState where
  progs : List (String × LoadedProg) := []
  deriving Inhabited

def DState.get (s : DState) (id : String) : LoadedProg :=
  ((s.progs.find? (·.1 == id)).map (·.2)).getD {}

def DState.set (s : DState) (id : String) (p : LoadedProg) : DState :=
  { s with progs := (id, p) :: s.progs.filter (·.1 != id) }

def splitBar (ts : List String) : List (List String) :=
  let r := ts.foldl (fun (acc : List (List String) × List String) t =>
    if t == "|" then (acc.1 ++ [acc.2], []) else (acc.1, acc.2 ++ [t])) ([], [])
  r.1 ++ [r.2]

def words (s : String) : List String := (s.splitOn " ").filter (· != "")

def parseKV (t : String) : Option (String × Nat) :=
  match t.splitOn "=" with
  | [k, v] => v.toNat?.map fun n => (k, n)
  | _ => none

/-- trace key of a line: protected instructions and inline lines are traced by content -/
def traceKey : Line → Option String
  | .instr i => if i.prot then some (i.mn.name ++ " " ++ i.opd) else none
  | .inline t _ => some ("inline " ++ t)
  | _ => none

def assignTids (tids : List (String × Nat)) (c : Code) : List (String × Nat) :=
  c.foldl (fun acc l =>
    match traceKey l with
    | some k => if acc.any (·.1 == k) then acc else acc ++ [(k, acc.length + 1)]
    | none => acc) tids

def tidOf (tids : List (String × Nat)) (l : Line) : Nat :=
  match traceKey l with
  | some k => ((tids.find? (·.1 == k)).map (·.2)).getD 0
  | none => 0

def flagsByte (f : Flags) : Nat := (Cpu.packFlags f).toNat

def stopStr : Stop → String
  | .running => "running" | .done => "done" | .fuel => "fuel"
  | .fault w => "fault:" ++ hexStr w

def brResultStr : BrResult → String
  | .ok c n => "ok " ++ toString n ++ " " ++ tokensOfCode c
  | .panic => "panic"
  | .diverge => "diverge"

/-- memory image tokens `addr=val` ; watch tokens `addr:len` -/
def parseWatch (t : String) : Option (Nat × Nat) :=
  match t.splitOn ":" with
  | [a, l] => do let a ← a.toNat?; let l ← l.toNat?; some (a, l)
  | _ => none

def handle (st : DState) (line : String) : DState × String :=
  match words line with
  | "ping" :: _ => (st, "pong")
  -- env <prog> name=addr ...
  | "env" :: id :: kvs =>
    let p := st.get id
    let env := kvs.filterMap fun t =>
      match t.splitOn "=" with
      | [k, v] => (unhexStr k).bind fun k => v.toNat?.map fun n => (k, n)
      | _ => none
    (st.set id { p with env := p.env ++ env }, "ok")
  -- ports <prog> wlo:rlo:len ...
  | "ports" :: id :: ps =>
    let p := st.get id
    let ports := ps.filterMap fun t =>
      match t.splitOn ":" with
      | [a, r, l] => do let a ← a.toNat?; let r ← r.toNat?; let l ← l.toNat?; some ({ wlo := a, rlo := r, len := l } : Port)
      | _ => none
    (st.set id { p with ports := ports }, "ok")
  -- tids <prog> : the content key of every trace id, in id order
  | ["tids", id] =>
    let p := st.get id
    (st, "ok " ++ " ".intercalate (p.tids.map fun t => hexStr t.1))
  -- volatile <prog> <lo> <hi>
  | ["volatile", id, lo, hi] =>
    let p := st.get id
    (st.set id { p with vlo := lo.toNat?.getD 0, vhi := hi.toNat?.getD 0 }, "ok")
  -- csleep <n> : the translated arm for csleep(n), as line tokens, or `reject`
  | ["csleep", n] =>
    match n.toInt? with
    | some k =>
      (match CV.Gen.csleepArms.find? (fun a => (a.1 : Int) == k) with
       | some arm => (st, "ok " ++ tokensOfCode (arm.2.map fun t =>
           let r := asmSel t.1 (if t.2.1 then .abs else .nothing)
                      { name := "DUMMY", ty := .char, const := true, mem := .zeropage, size := 1 } .k4 true 0 false t.2.2
           match r with | .instr i => Line.instr i | _ => Line.dummy))
       | none => (st, "reject"))
    | none => (st, "badreq")
  -- fn <prog> <namehex> <line tokens>
  | "fn" :: id :: nameh :: toks =>
    match unhexStr nameh, codeOfTokens toks with
    | some name, some code =>
      let p := st.get id
      let tids := assignTids p.tids code
      let r : Array RLine := (code.map (resolveLine p.env (tidOf tids))).toArray
      let bad := r.toList.filterMap fun l => match l with | .bad w => some w | _ => none
      (st.set id { p with fns := p.fns.push { name := name, code := r }, tids := tids },
        if bad.isEmpty then "ok" else "bad " ++ hexStr (bad.headD ""))
    | _, _ => (st, "badreq")
  | "drop" :: id :: _ => ({ st with progs := st.progs.filter (·.1 != id) }, "ok")
  -- run <prog> <entryhex> <fuel> <A> <X> <Y> <P> | addr=val ... | addr:len ...
  | "run" :: id :: entryh :: fuel :: a :: x :: y :: pf :: rest =>
    let p := st.get id
    match unhexStr entryh, fuel.toNat?, a.toNat?, x.toNat?, y.toNat?, pf.toNat? with
    | some entry, some fuel, some a, some x, some y, some pf =>
      let prog : Prog := { fns := p.fns }
      match prog.findFn entry with
      | none => (st, "nofn")
      | some f =>
        let segs := splitBar rest
        let img := (segs.getD 1 []).filterMap parseKV'
        let watch := (segs.getD 2 []).filterMap parseWatch
        let mem := img.foldl (fun (m : Mem) (kv : Nat × Nat) => m.write (BitVec.ofNat 16 kv.1) (BitVec.ofNat 8 kv.2)) Mem.zero
        let cpu : Cpu := { a := BitVec.ofNat 8 a, x := BitVec.ofNat 8 x, y := BitVec.ofNat 8 y,
                           f := Cpu.unpackFlags (BitVec.ofNat 8 pf), mem := mem }
        let s := run prog { ports := p.ports, vlo := p.vlo, vhi := p.vhi } fuel { cpu := cpu, fn := f, pc := 0 }
        let memOut := String.join (watch.map fun (w : Nat × Nat) =>
          String.join ((List.range w.2).map fun i => hexOfByte (s.cpu.mem.read (BitVec.ofNat 16 (w.1 + i))).toNat))
        (st, s!"ok {stopStr s.stop} {s.cpu.a.toNat} {s.cpu.x.toNat} {s.cpu.y.toNat} {flagsByte s.cpu.f} {s.cpu.sp.toNat} {s.cycles} {s.steps} {s.faults} {s.ntrace} t={",".intercalate (s.trace.reverse.map toString)} m={memOut} c={",".intercalate (s.tcyc.reverse.map toString)}")
    | _, _, _, _, _, _ => (st, "badreq")
  -- lens <prog> <line tokens> : independent encoded length of every line
  | "lens" :: id :: toks =>
    match codeOfTokens toks with
    | some code =>
      let p := st.get id
      (st, "ok " ++ " ".intercalate (code.map fun l => match l.asmLen p.env with | some n => toString n | none => "bad"))
    | none => (st, "badreq")
  -- asmsel <mn> <kind> <namehex> <ty> <const> <mem> <size> <scheme> <eight> <off> <high> <prot>
  | ["asmsel", mn, kind, nameh, ty, cst, mem, size, sch, eight, off, high, prot] =>
    let kindOf : String → Option OKind := fun k => match k with
      | "0" => some .nothing | "1" => some .imm | "2" => some .tmp | "3" => some .abs | "4" => some .absX
      | "5" => some .absY | "6" => some .acc | "7" => some .label | "8" => some .regX | "9" => some .regY | _ => none
    let tyOf : String → Option VType := fun t => match t with
      | "char" => some .char | "short" => some .short | "charptr" => some .charPtr
      | "charptrptr" => some .charPtrPtr | "shortptr" => some .shortPtr | _ => none
    let memOf : String → VMem := fun m =>
      if m == "zp" then .zeropage else if m == "superchip" then .superchip else if m == "ramchip" then .ramchip
      else if m == "ramplus" then .ramplus else if m == "display" then .display else if m == "frequency" then .frequency
      else if m == "dummy" then .dummy else if m.startsWith "onchip" then .onchip else .rom
    let schOf : String → Scheme := fun s => if s == "3E" then .e3 else if s == "3EP" then .e3p else .k4
    match Mn.ofString? mn, kindOf kind, unhexStr nameh, tyOf ty, size.toNat?, off.toInt? with
    | some mn, some k, some name, some ty, some size, some off =>
      let v : VarInfo := { name := name, ty := ty, const := cst == "1", mem := memOf mem, size := size }
      let zp := v.mem == .zeropage
      let r := asmSel mn k v (schOf sch) (eight == "1") off (high == "1") (prot == "1")
      (match r with
       | .instr i =>
         -- round trip: does the rendered text select the mode the form promised?
         let env : Env := [(name, if zp then 0x10 else 0x1000), ("cctmp", 0x80)]
         let viaText := (resolve env i.mn i.opd).map fun p => p.2.len
         let viaForm := match selA mn k ty v.const zp (size == 1) (eight == "1") (high == "1") with
           | .ok f _ _ _ => if applicable mn f then (modeOfForm mn f zp).map Mode.len else viaText
           | .redirect m => (modeOfForm m .none zp).map Mode.len
           | _ => none
         let shw := fun (o : Option Nat) => match o with | some n => toString n | none => "none"
         (st, tokenOfLine (.instr i) ++ " text=" ++ shw viaText ++ " form=" ++ shw viaForm)
       | .nothing => (st, "nothing")
       | .err => (st, "err")
       | .panic => (st, "panic"))
    | _, _, _, _, _, _ => (st, "badreq")
  -- inline <n> <callee tokens> / <caller tokens>
  | "inline" :: n :: rest =>
    let (calleeT, callerT) := (rest.takeWhile (· != "/"), (rest.dropWhile (· != "/")).drop 1)
    match n.toNat?, codeOfTokens calleeT, codeOfTokens callerT with
    | some n, some callee, some caller => (st, "ok 0 " ++ tokensOfCode (appendCode caller callee n))
    | _, _, _ => (st, "badreq")
  -- opt <line tokens>
  | "opt" :: toks =>
    match codeOfTokens toks with
    | some code => let (c, n) := optimize code; (st, "ok " ++ toString n ++ " " ++ tokensOfCode c)
    | none => (st, "badreq")
  -- cpp <mainhex> [D=<hex of NAME=VALUE>]* [F=<namehex>:<contenthex>]* [M=<namehex>]
  | "cpp" :: mainh :: opts =>
    let defines := opts.filterMap fun t =>
      if t.startsWith "D=" then
        (unhexStr (t.drop 2).toString).map fun d =>
          match d.splitOn "=" with
          | [n] => (n.toList, ['1'])
          | n :: rest => (n.toList, ("=".intercalate rest).toList)
          | [] => ([], [])
      else none
    let files := opts.filterMap fun t =>
      if t.startsWith "F=" then
        match (t.drop 2).toString.splitOn ":" with
        | [n, c] => do let n ← unhexStr n; let c ← unhexStr c; some (n, c.toList)
        | _ => none
      else none
    let name := (opts.filterMap fun t => if t.startsWith "M=" then unhexStr (t.drop 2).toString else none).headD "main.c"
    match unhexStr mainh with
    | none => (st, "badreq")
    | some src =>
      let showEntry := fun (e : Cpp.Entry) =>
        hexStr e.file ++ ":" ++ toString e.line ++ ":" ++
          (match e.inc with | some (f, l) => hexStr f ++ ":" ++ toString l | none => "-:-")
      (match Cpp.process files name defines src.toList with
       | .ok out mp ctx =>
         (st, "ok " ++ hexStr (String.ofList out) ++ " | " ++ " ".intercalate (mp.map showEntry) ++ " | " ++
              " ".intercalate (ctx.literals.map fun l => hexStr (String.ofList l)))
       | .err e =>
         (st, "err " ++ (match e.kind with | .syntax => "syntax" | .compiler => "compiler" | .io => "io") ++ " " ++
              hexStr e.file ++ " " ++ toString e.line ++ " " ++
              (match e.inc with | some (f, l) => hexStr f ++ " " ++ toString l | none => "- -") ++ " " ++ hexStr e.msg)
       | .diverge => (st, "diverge"))
  -- lit <bodyhex>... : bytes stored for the concatenation of these literal bodies
  | "lit" :: bodies =>
    match bodies.mapM unhexStr with
    | some bs => (st, "ok " ++ " ".intercalate ((Lit.stored (bs.map String.toList)).map toString))
    | none => (st, "badreq")
  -- calc <tokens> : n<int> | i<rule>:<digitshex> | o<rule> | ( | )
  | "calc" :: toks =>
    let ts : Option (List Calc.Tok) := toks.mapM fun t =>
      if t == "(" then some Calc.Tok.lp else if t == ")" then some Calc.Tok.rp
      else if t.startsWith "o" then some (Calc.Tok.op (t.drop 1).toString)
      else if t.startsWith "n" then ((t.drop 1).toString.toInt?).map fun v => Calc.Tok.num (.ok v)
      else if t.startsWith "i" then
        match (t.drop 1).toString.splitOn ":" with
        | [rule, dh] => (unhexStr dh).map fun d => Calc.Tok.num (Calc.parseIntText rule d)
        | _ => none
      else none
    match ts with
    | some ts =>
      (st, match Calc.evalTokens ts with | .ok v => "ok " ++ toString v | .err => "err" | .panic => "panic")
    | none => (st, "badreq")
  -- inuse <interrupt names hex, comma separated | -> | f=c1,c2 | g= ...   (names hex)
  | "inuse" :: ints :: rest =>
    let names := fun (s : String) => if s == "-" || s.isEmpty then some [] else (s.splitOn ",").mapM unhexStr
    let entries := (rest.filter (· != "|")).mapM fun t =>
      match t.splitOn "=" with
      | [f, cs] => do let f ← unhexStr f; let cs ← names cs; some (f, cs)
      | _ => none
    match names ints, entries with
    | some ints, some tree =>
      (match CallGraph.inUse tree ints with
       | some res => (st, "ok " ++ " ".intercalate ((res.map hexStr).toArray.qsort (· < ·)).toList)
       | none => (st, "diverge"))
    | _, _ => (st, "badreq")
  -- csem <narrow|wide> <fuel> / name:bits=val ... / arr=v,v,v ... / fname <stmt tokens> / ... (main last)
  | "csem" :: mode :: fuel :: rest =>
    let segs := (rest.foldl (fun (acc : List (List String) × List String) t =>
      if t == "/" then (acc.1 ++ [acc.2], []) else (acc.1, acc.2 ++ [t])) ([], []))
    let segs := (segs.1 ++ [segs.2]).drop 1
    let m : CSem.Mode := if mode == "wide" then .wide else .narrow
    match fuel.toNat?, segs with
    | some fuel, vs :: as :: fns =>
      let vars := vs.filterMap fun t =>
        match t.splitOn "=" with
        | [nb, v] => (match nb.splitOn ":" with
          | [n, b] => do let b ← (if b.startsWith "s" then (b.drop 1).toString else b).toNat?; let v ← v.toInt?; some (n, b, v)
          | _ => none)
        | _ => none
      -- `name:s8=…` / `name:s16=…` : a signed variable or array
      let sgn := (vs ++ as).filterMap fun t =>
        match t.splitOn "=" with
        | [nb, _] => (match nb.splitOn ":" with
          | [n, b] => if b.startsWith "s" then some n else none
          | _ => none)
        | _ => none
      let arrs := as.filterMap fun t =>
        match t.splitOn "=" with
        | [nb, vs] =>
          let (n, b) := match nb.splitOn ":" with
            | [n, b] => (n, ((if b.startsWith "s" then (b.drop 1).toString else b).toNat?).getD 8)
            | _ => (nb, 8)
          ((vs.splitOn ",").mapM String.toInt?).map fun l => (n, b, l)
        | _ => none
      let funs := fns.mapM fun ts =>
        match ts with
        | name :: body => (CSem.parseS (4 * body.length + 16) body).bind fun p => if p.2.isEmpty then some (name, p.1) else none
        | [] => none
      (match funs with
       | none => (st, "badreq parse")
       | some funs =>
         let s0 : CSem.Store := { vars := vars, arrs := arrs, sgn := sgn }
         match CSem.runMain m funs fuel s0 with
         | .ok _ s1 =>
           (st, "ok " ++ " ".intercalate (s1.vars.map fun p => p.1 ++ "=" ++ toString p.2.2) ++ " / " ++
                " ".intercalate (s1.arrs.map fun p => p.1 ++ "=" ++ ",".intercalate (p.2.2.map toString)))
         | .undef w => (st, "undef " ++ hexStr w)
         | .fuel => (st, "fuel"))
    | _, _ => (st, "badreq")
  -- genflat <stmt>... : asg:v:atom | bin:v:op:atom:atom | oas:v:op:atom | inc:v | dec:v ; atom = c<n> | v<name>
  | "genflat" :: sts =>
    let atom : String → Option GenFlat.Atom := fun t =>
      if t.startsWith "c" then ((t.drop 1).toString.toNat?).map fun n => GenFlat.Atom.const (BitVec.ofNat 8 n)
      else if t.startsWith "v" then some (GenFlat.Atom.var (t.drop 1).toString) else none
    let bop : String → Option GenFlat.BOp := fun t =>
      if t == "add" then some .add else if t == "sub" then some .sub else if t == "and" then some .band
      else if t == "or" then some .bor else if t == "xor" then some .bxor else none
    let parsed := sts.mapM fun t =>
      match t.splitOn ":" with
      | ["asg", v, a] => (atom a).map fun a => GenFlat.FStmt.asg v a
      | ["bin", v, o, a, b] => do let o ← bop o; let a ← atom a; let b ← atom b; some (GenFlat.FStmt.bin v o a b)
      | ["oas", v, o, a] => do let o ← bop o; let a ← atom a; some (GenFlat.FStmt.opasg v o a)
      | ["inc", v] => some (GenFlat.FStmt.inc v)
      | ["dec", v] => some (GenFlat.FStmt.dec v)
      | _ => none
    match parsed with
    | some ps =>
      if ps.all GenFlat.InFragment then
        (st, "ok " ++ " ".intercalate ((ps.flatMap GenFlat.genText).map fun p => p.1.name ++ ":" ++ hexStr p.2))
      else (st, "outside")
    | none => (st, "badreq")
  -- genexpr <lv> <prefix tokens> : the expression-tree generator port on `lv = e`; `reject` when the generator gives up
  | "genexpr" :: v :: toks =>
    (match GSParse.lv v, GSParse.gexpr (toks.length + 1) toks with
     | some v, some (e, []) =>
       (match GenReg.genE "" GenFlat.text {} e with
        | some (c, .acc, _) =>
          (st, "ok " ++ " ".intercalate ((c ++ GenReg.storeA "" GenFlat.text v).map fun p => p.1.name ++ ":" ++ hexStr p.2))
        | some _ => (st, "outside")
        | none => (st, if GSParse.gexprFolds e then "outside" else "reject"))
     | _, _ => (st, "badreq"))
  -- genstruct <tokens> : the stage-2 generator port on a structured program; instruction and label lines
  --   an optional first token `abs=t,u` names the arrays declared outside the zero page
  | "genstruct" :: toks0 =>
    let (absl, toks) := match toks0 with
      | t :: r => if t.startsWith "abs=" then ((t.drop 4).toString.splitOn ",", r) else ([], toks0)
      | [] => ([], toks0)
    match GSParse.program toks with
    | some p =>
      if GenStruct.SInFragment p && GenStruct.Scoped false p then
        (st, "ok " ++ " ".intercalate ((GenStruct.gen none { abs := absl } p).1.map GenStruct.GLine.text))
      else (st, "outside")
    | none => (st, "badreq")
  -- semstruct <fuel> / name=val ... / <tokens> : final values of the named variables (layout: name i at address $80+i)
  | "semstruct" :: fuel :: "/" :: rest =>
    let vars := rest.takeWhile (· != "/")
    let toks := (rest.dropWhile (· != "/")).drop 1
    -- a scalar is `name=val`, an array `name=v0,v1,...` (at least two cells)
    let kv : List (String × List Nat) := vars.filterMap fun t => match t.splitOn "=" with
      | [k, v] => some (k, (v.splitOn ",").filterMap String.toNat?)
      | _ => none
    let mems := kv.filter fun p => p.1 != "X" && p.1 != "Y"
    -- layout: cctmp at $80, then the named objects one after the other from $81 on
    let addrs : List (String × Nat) := (mems.foldl (fun (acc : List (String × Nat) × Nat) p => (acc.1 ++ [(p.1, acc.2)], acc.2 + p.2.length)) ([], 0x81)).1
    let L : GenFlat.Layout := fun x => if x == "cctmp" then 0x80 else BitVec.ofNat 16 ((addrs.find? (·.1 == x)).map (·.2) |>.getD 0xF000)
    let m0 := mems.foldl (fun (m : Mem) p =>
      (p.2.zipIdx).foldl (fun (m : Mem) (vi : Nat × Nat) => m.write (L p.1 + BitVec.ofNat 16 vi.2) (BitVec.ofNat 8 vi.1)) m) Mem.zero
    let reg := fun (n : String) => BitVec.ofNat 8 (((kv.find? (·.1 == n)).bind (·.2.head?)).getD 0)
    match GSParse.program toks, fuel.toNat? with
    | some p, some f =>
      (match GenStruct.sem L f { mem := m0, x := reg "X", y := reg "Y", sp := 0xFF } p with
       | some (_, σ) => (st, "ok " ++ " ".intercalate ((mems.map fun p => p.1 ++ "=" ++
             ",".intercalate ((List.range p.2.length).map fun i => toString (σ.mem.read (L p.1 + BitVec.ofNat 16 i)).toNat)) ++
           ["X=" ++ toString σ.x.toNat, "Y=" ++ toString σ.y.toNat]))
       | none => (st, "fuel"))
    | _, _ => (st, "badreq")
  -- validate <progA> <progB> <fnhex> : the translation validator on function fn of two loaded programs
  --   (A = before optimisation, B = after); answers `ok accepted <removed>` | `ok rejected <pos>` | `nofn`
  | "validate" :: ida :: idb :: fnh :: _ =>
    let toV : Array RLine → Valid.VCode := fun code =>
      (code.toList.zipIdx).map fun (l, i) =>
        match l with
        | .label s => Valid.VLine.lab s
        | .skip => .dummy
        | .bad _ => .ext i
        | .ins mn o _ _ =>
          if mn.isCondBranch then (match o with | .lbl t => .br mn t | _ => .ext i)
          else if mn == .JMP then (match o with | .lbl t => .jmp t | _ => .ext i)
          else if mn == .RTS then .rts
          else if Valid.supported mn then (match o with | .lbl _ => .ext i | _ => .ins mn o)
          else .ext i
    match unhexStr fnh with
    | none => (st, "badreq")
    | some fname =>
      let pa := st.get ida
      let pb := st.get idb
      match pa.fns.find? (·.name == fname), pb.fns.find? (·.name == fname) with
      | some fa, some fb =>
        let a := toV fa.code
        let b := toV fb.code
        let removed := (a.zip b).filter (fun p => p.1 != p.2) |>.length
        if Valid.validate a b then (st, s!"ok accepted {removed}")
        else
          -- the reason, as far as a diagnostic can tell: accepted when the carry (or carry and N/Z) is taken for dead?
          let why := if Valid.validateWith (fun r => r == .c) a b then "carry"
                     else if Valid.validateWith (fun r => r == .c || r == .nz) a b then "flags" else "other"
          (st, s!"ok rejected {(Valid.firstBad a b).getD 99999} {removed} {why}")
      | _, _ => (st, "nofn")
  -- branch <line tokens>
  | "branch" :: toks =>
    match codeOfTokens toks with
    | some code => (st, brResultStr (checkBranches code))
    | none => (st, "badreq")
  | _ => (st, "badreq")
where
  parseKV' (t : String) : Option (Nat × Nat) :=
    match t.splitOn "=" with
    | [k, v] => do let k ← k.toNat?; let v ← v.toNat?; some (k, v)
    | _ => none

end CV
