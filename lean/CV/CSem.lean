/-
  CV.CSem — a definitional interpreter for the C subset the program generators produce: the
  reading of "what the source prescribes" used by C01, C14, C15, C17 (DESIGN.md section 3.1).

  Values are mathematical integers. Two readings of arithmetic on `char` operands are provided,
  selected by `Mode`:
    * `narrow` : every intermediate result is reduced modulo 2^8 (2^16 as soon as a 16-bit operand
                 takes part) — "8-bit wrap-around chars";
    * `wide`   : ISO C's promotion to `int`: intermediates are not reduced.
  Stores always truncate to the width of the target. The checks compare a compiled program with the
  interpreter only on initial states where both readings give the same final state.
  Undefined behaviour (array index out of range, unknown name) is its own outcome and such runs are
  discarded, never counted as agreement or as a failure.
-/
namespace CV.CSem

inductive Mode where | narrow | wide
  deriving DecidableEq, Repr

inductive Expr where
  | num (n : Int)
  | var (x : String)
  | idx (a : String) (i : Expr)
  | bin (op : String) (a b : Expr)          -- + - & | ^ << >>
  | neg (a : Expr) | bnot (a : Expr) | lnot (a : Expr)
  | cmp (op : String) (a b : Expr)          -- == != < <= > >=
  | land (a b : Expr) | lor (a b : Expr)
  | tern (c a b : Expr)
  | asg (lv e : Expr)
  | opasg (op : String) (lv e : Expr)
  | pre (op : String) (lv : Expr)           -- "++" / "--"
  | post (op : String) (lv : Expr)
  | call (f : String)
  deriving Repr, Inhabited

inductive Stmt where
  | expr (e : Expr)
  | ite (c : Expr) (t : Stmt) (e : Option Stmt)
  | while_ (c : Expr) (b : Stmt)
  | dowhile (b : Stmt) (c : Expr)
  | for_ (init cond upd : Option Expr) (b : Stmt)
  | block (ss : List Stmt)
  | break_ | continue_ | ret
  | switch (e : Expr) (cases : List (List Int × List Stmt)) (dflt : Option (List Stmt))
  deriving Repr, Inhabited

structure VarDecl where
  name : String
  bits : Nat            -- 8 or 16
  deriving Repr, Inhabited

structure Store where
  vars : List (String × Nat × Int)        -- name, bits, value
  arrs : List (String × Nat × List Int)   -- name, element bits (8 or 16), elements
  sgn : List String := []                 -- names of the signed variables / arrays (values are stored as bit patterns)
  deriving Repr, Inhabited

inductive Flow where
  | normal | brk | cont | ret
  deriving DecidableEq, Repr

inductive Res (α : Type) where
  | ok (a : α) (s : Store)
  | undef (why : String)
  | fuel
  deriving Repr

/-- a stored bit pattern read as a signed / unsigned value -/
def asValue (signed : Bool) (bits : Nat) (v : Int) : Int :=
  if signed && v ≥ 2 ^ (bits - 1) then v - 2 ^ bits else v

def Store.getVar (s : Store) (x : String) : Option (Nat × Int) :=
  (s.vars.find? (·.1 == x)).map fun p => (p.2.1, asValue (s.sgn.contains x) p.2.1 p.2.2)

def Store.setVar (s : Store) (x : String) (v : Int) : Option Store :=
  if s.vars.any (·.1 == x) then
    some { s with vars := s.vars.map fun p => if p.1 == x then (p.1, p.2.1, v % (2 ^ p.2.1)) else p }
  else none

def Store.getArr (s : Store) (a : String) (i : Int) : Option Int :=
  match s.arrs.find? (·.1 == a) with
  | some (_, b, vs) => if 0 ≤ i && i < vs.length then (vs[i.toNat]?).map (asValue (s.sgn.contains a) b) else none
  | none => none

def Store.arrBits (s : Store) (a : String) : Nat :=
  match s.arrs.find? (·.1 == a) with
  | some (_, b, _) => b
  | none => 8

def Store.setArr (s : Store) (a : String) (i : Int) (v : Int) : Option Store :=
  match s.arrs.find? (·.1 == a) with
  | some (_, b, vs) =>
    if 0 ≤ i && i < vs.length then
      some { s with arrs := s.arrs.map fun p => if p.1 == a then (p.1, p.2.1, p.2.2.set i.toNat (v % (2 ^ b))) else p }
    else none
  | none => none

/-- width (bits) of an expression: 16 as soon as a 16-bit variable takes part -/
def width (s : Store) : Expr → Nat
  | .num _ => 8
  | .var x => match s.getVar x with | some (b, _) => b | none => 8
  | .idx a _ => s.arrBits a
  | .bin _ a b => max (width s a) (width s b)
  | .neg a | .bnot a => width s a
  | .lnot _ | .cmp _ _ _ | .land _ _ | .lor _ _ => 8
  | .tern _ a b => max (width s a) (width s b)
  | .asg lv _ | .opasg _ lv _ | .pre _ lv | .post _ lv => width s lv
  | .call _ => 8

def normTo (m : Mode) (bits : Nat) (v : Int) : Int :=
  match m with
  | .narrow => v % (2 ^ bits)
  | .wide => v

/-- bitwise operations through the 32-bit two's complement image (operands are small) -/
def bit32 (f : Nat → Nat → Nat) (a b : Int) : Int :=
  let r : Int := f (a % 4294967296).toNat (b % 4294967296).toNat
  if r ≥ 2147483648 then r - 4294967296 else r

def binop (op : String) (a b : Int) : Option Int :=
  if op == "+" then some (a + b) else if op == "-" then some (a - b)
  else if op == "&" then some (bit32 Nat.land a b) else if op == "|" then some (bit32 Nat.lor a b)
  else if op == "^" then some (bit32 Nat.xor a b)
  else if op == "<<" then (if 0 ≤ b && b < 16 then some (a * 2 ^ b.toNat) else none)
  else if op == ">>" then (if 0 ≤ b && b < 16 then some (a / 2 ^ b.toNat) else none)
  else none

def cmpop (op : String) (a b : Int) : Option Bool :=
  if op == "==" then some (a == b) else if op == "!=" then some (a != b)
  else if op == "<" then some (a < b) else if op == "<=" then some (a ≤ b)
  else if op == ">" then some (a > b) else if op == ">=" then some (a ≥ b)
  else none

def b2i (b : Bool) : Int := if b then 1 else 0

abbrev Funs := List (String × Stmt)

mutual
/-- read an lvalue's current value; returns also a setter description -/
def evalE (m : Mode) (fs : Funs) : Nat → Store → Expr → Res Int
  | 0, _, _ => .fuel
  | f + 1, s, e =>
    match e with
    | .num n => .ok n s
    | .var x => (match s.getVar x with | some (_, v) => .ok v s | none => .undef ("unknown variable " ++ x))
    | .idx a i =>
      (match evalE m fs f s i with
       | .ok iv s1 => (match s1.getArr a iv with | some v => .ok v s1 | none => .undef ("index out of range: " ++ a))
       | r => r)
    | .bin op a b =>
      let w := max (width s a) (width s b)
      (match evalE m fs f s a with
       | .ok av s1 =>
         (match evalE m fs f s1 b with
          | .ok bv s2 => (match binop op av bv with | some v => .ok (normTo m w v) s2 | none => .undef "shift count")
          | r => r)
       | r => r)
    | .neg a => (match evalE m fs f s a with | .ok v s1 => .ok (normTo m (width s a) (-v)) s1 | r => r)
    | .bnot a => (match evalE m fs f s a with | .ok v s1 => .ok (normTo m (width s a) (-v - 1)) s1 | r => r)
    | .lnot a => (match evalE m fs f s a with | .ok v s1 => .ok (b2i (v == 0)) s1 | r => r)
    | .cmp op a b =>
      (match evalE m fs f s a with
       | .ok av s1 =>
         (match evalE m fs f s1 b with
          | .ok bv s2 => (match cmpop op av bv with | some r => .ok (b2i r) s2 | none => .undef "comparison")
          | r => r)
       | r => r)
    | .land a b =>
      (match evalE m fs f s a with
       | .ok av s1 => if av == 0 then .ok 0 s1 else
           (match evalE m fs f s1 b with | .ok bv s2 => .ok (b2i (bv != 0)) s2 | r => r)
       | r => r)
    | .lor a b =>
      (match evalE m fs f s a with
       | .ok av s1 => if av != 0 then .ok 1 s1 else
           (match evalE m fs f s1 b with | .ok bv s2 => .ok (b2i (bv != 0)) s2 | r => r)
       | r => r)
    | .tern c a b =>
      (match evalE m fs f s c with
       | .ok cv s1 => if cv != 0 then evalE m fs f s1 a else evalE m fs f s1 b
       | r => r)
    | .asg lv rhs =>
      (match evalE m fs f s rhs with
       | .ok v s1 => store m fs f s1 lv v
       | r => r)
    | .opasg op lv rhs =>
      let w := max (width s lv) (width s rhs)
      (match evalE m fs f s lv with
       | .ok cur s1 =>
         (match evalE m fs f s1 rhs with
          | .ok v s2 => (match binop op cur v with | some r => store m fs f s2 lv (normTo m w r) | none => .undef "shift count")
          | r => r)
       | r => r)
    | .pre op lv =>
      (match evalE m fs f s lv with
       | .ok cur s1 => store m fs f s1 lv (if op == "++" then cur + 1 else cur - 1)
       | r => r)
    | .post op lv =>
      (match evalE m fs f s lv with
       | .ok cur s1 =>
         (match store m fs f s1 lv (if op == "++" then cur + 1 else cur - 1) with
          | .ok _ s2 => .ok cur s2
          | r => r)
       | r => r)
    | .call g =>
      (match fs.find? (·.1 == g) with
       | some (_, body) => (match exec m fs f s body with | .ok _ s1 => .ok 0 s1 | .undef w => .undef w | .fuel => .fuel)
       | none => .undef ("unknown function " ++ g))

/-- store `v` into an lvalue (truncating); the value of the assignment expression is the stored one -/
def store (m : Mode) (fs : Funs) : Nat → Store → Expr → Int → Res Int
  | 0, _, _, _ => .fuel
  | f + 1, s, lv, v =>
    match lv with
    | .var x =>
      (match s.setVar x v with
       | some s1 => (match s1.getVar x with | some (_, sv) => .ok sv s1 | none => .undef "store")
       | none => .undef ("unknown variable " ++ x))
    | .idx a i =>
      (match evalE m fs f s i with
       | .ok iv s1 => (match s1.setArr a iv v with | some s2 => .ok (v % (2 ^ s1.arrBits a)) s2 | none => .undef ("index out of range: " ++ a))
       | r => r)
    | _ => .undef "not an lvalue"

def exec (m : Mode) (fs : Funs) : Nat → Store → Stmt → Res Flow
  | 0, _, _ => .fuel
  | f + 1, s, st =>
    match st with
    | .expr e => (match evalE m fs f s e with | .ok _ s1 => .ok .normal s1 | .undef w => .undef w | .fuel => .fuel)
    | .block ss => execList m fs f s ss
    | .ite c t e =>
      (match evalE m fs f s c with
       | .ok cv s1 => if cv != 0 then exec m fs f s1 t else (match e with | some e' => exec m fs f s1 e' | none => .ok .normal s1)
       | .undef w => .undef w | .fuel => .fuel)
    | .while_ c b =>
      (match evalE m fs f s c with
       | .ok cv s1 =>
         if cv == 0 then .ok .normal s1 else
         (match exec m fs f s1 b with
          | .ok .brk s2 => .ok .normal s2
          | .ok .ret s2 => .ok .ret s2
          | .ok _ s2 => exec m fs f s2 (.while_ c b)
          | r => r)
       | .undef w => .undef w | .fuel => .fuel)
    | .dowhile b c =>
      (match exec m fs f s b with
       | .ok .brk s1 => .ok .normal s1
       | .ok .ret s1 => .ok .ret s1
       | .ok _ s1 =>
         (match evalE m fs f s1 c with
          | .ok cv s2 => if cv == 0 then .ok .normal s2 else exec m fs f s2 (.dowhile b c)
          | .undef w => .undef w | .fuel => .fuel)
       | r => r)
    | .for_ init cond upd b =>
      let afterInit : Res Unit := match init with
        | some e => (match evalE m fs f s e with | .ok _ s1 => .ok () s1 | .undef w => .undef w | .fuel => .fuel)
        | none => .ok () s
      (match afterInit with
       | .ok _ s1 => forLoop m fs f s1 cond upd b
       | .undef w => .undef w | .fuel => .fuel)
    | .break_ => .ok .brk s
    | .continue_ => .ok .cont s
    | .ret => .ok .ret s
    | .switch e cases dflt =>
      (match evalE m fs f s e with
       | .ok v s1 =>
         -- statements from the first matching case on (fall-through), then the default's
         let rec pick (cs : List (List Int × List Stmt)) : Option (List Stmt) :=
           match cs with
           | [] => none
           | (vals, body) :: rest =>
             if vals.contains v then some (body ++ (rest.map (·.2)).flatten ++ (dflt.getD []))
             else pick rest
         let body := match pick cases with | some b => b | none => dflt.getD []
         (match execList m fs f s1 body with
          | .ok .brk s2 => .ok .normal s2
          | r => r)
       | .undef w => .undef w | .fuel => .fuel)

def forLoop (m : Mode) (fs : Funs) : Nat → Store → Option Expr → Option Expr → Stmt → Res Flow
  | 0, _, _, _, _ => .fuel
  | f + 1, s, cond, upd, b =>
    let c : Res Int := match cond with | some e => evalE m fs f s e | none => .ok 1 s
    match c with
    | .ok cv s1 =>
      if cv == 0 then .ok .normal s1 else
      (match exec m fs f s1 b with
       | .ok .brk s2 => .ok .normal s2
       | .ok .ret s2 => .ok .ret s2
       | .ok _ s2 =>
         let u : Res Unit := match upd with
           | some e => (match evalE m fs f s2 e with | .ok _ s3 => .ok () s3 | .undef w => .undef w | .fuel => .fuel)
           | none => .ok () s2
         (match u with
          | .ok _ s3 => forLoop m fs f s3 cond upd b
          | .undef w => .undef w | .fuel => .fuel)
       | r => r)
    | .undef w => .undef w | .fuel => .fuel

def execList (m : Mode) (fs : Funs) : Nat → Store → List Stmt → Res Flow
  | 0, _, _ => .fuel
  | _ + 1, s, [] => .ok .normal s
  | f + 1, s, st :: rest =>
    match exec m fs f s st with
    | .ok .normal s1 => execList m fs f s1 rest
    | r => r
end

/-- run `main` -/
def runMain (m : Mode) (fs : Funs) (fuel : Nat) (s : Store) : Res Flow :=
  match fs.find? (·.1 == "main") with
  | some (_, body) => exec m fs fuel s body
  | none => .undef "no main"

end CV.CSem
