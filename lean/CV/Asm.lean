/-
  CV.Asm — the line vector of `AssemblyCode` (same five kinds, same fields), an
  independent dasm-style front end (operand expressions, addressing-mode choice) and
  the two size functions: `sizeBytes` (port of `AssemblyCode::size_bytes`) and
  `asmLen` (what the independent encoder produces).
-/
import CV.Encode
namespace CV

structure Instr where
  mn : Mn
  opd : String := ""       -- `dasm_operand`
  cycles : Nat := 2
  cyclesAlt : Option Nat := none
  nbBytes : Nat := 1
  prot : Bool := false
  deriving DecidableEq, Repr, Inhabited

inductive Line where
  | label (l : String)
  | instr (i : Instr)
  | inline (text : String) (size : Nat)
  | comment (s : String)
  | dummy
  deriving DecidableEq, Repr, Inhabited

abbrev Code := List Line

/-- port of `AssemblyCode::size_bytes` -/
def Line.size : Line → Nat
  | .instr i => i.nbBytes
  | .inline _ s => s
  | _ => 0

def sizeBytes (c : Code) : Nat := (c.map Line.size).sum

/-- port of `AsmLine::write` with `cycles = false` -/
def Line.text : Line → String
  | .label l => l ++ "\n"
  | .instr i => if i.opd.isEmpty then "\t" ++ i.mn.name ++ "\n"
                else "\t" ++ i.mn.name ++ " " ++ i.opd ++ "\n"
  | .inline t _ => "\t" ++ t ++ "\n"
  | .comment s => ";" ++ s ++ "\n"
  | .dummy => ""

def codeText (c : Code) : String := String.join (c.map Line.text)

/-! ### operand expressions -/

abbrev Env := List (String × Nat)

def Env.get? (e : Env) (s : String) : Option Nat := (e.find? (·.1 == s)).map (·.2)

def isSymStart (c : Char) : Bool := c.isAlpha || c == '_' || c == '.'
def isSymChar (c : Char) : Bool := c.isAlphanum || c == '_' || c == '.'

def parseDec (cs : List Char) : Option Nat :=
  if cs.isEmpty || !cs.all Char.isDigit then none
  else some (cs.foldl (fun n c => n * 10 + (c.toNat - 48)) 0)

def parseHex (cs : List Char) : Option Nat :=
  if cs.isEmpty then none
  else cs.foldlM (fun n c => (hexVal c).map (n * 16 + ·)) 0

def parseBin (cs : List Char) : Option Nat :=
  if cs.isEmpty then none
  else cs.foldlM (fun n c => if c == '0' then some (n * 2) else if c == '1' then some (n * 2 + 1) else none) 0

/-- a term: decimal, `$hex`, `%bin` or a symbol -/
def evalTerm (env : Env) (cs : List Char) : Option Int :=
  match cs with
  | [] => none
  | '$' :: r => (parseHex r).map Int.ofNat
  | '%' :: r => (parseBin r).map Int.ofNat
  | c :: _ =>
    if c.isDigit then (parseDec cs).map Int.ofNat
    else if isSymStart c && cs.all isSymChar then (env.get? (String.ofList cs)).map Int.ofNat
    else none

def trimL (cs : List Char) : List Char := cs.dropWhile (· == ' ')
def trimC (cs : List Char) : List Char := (trimL (trimL cs).reverse).reverse

/-- split a character list at top-level `+`/`-` into signed terms -/
def splitTerms (cs : List Char) : List (Bool × List Char) :=
  let rec go (cs : List Char) (depth : Nat) (neg : Bool) (cur : List Char)
      (acc : List (Bool × List Char)) : List (Bool × List Char) :=
    match cs with
    | [] => (acc.cons (neg, cur.reverse)).reverse
    | c :: r =>
      if c == '(' then go r (depth + 1) neg (c :: cur) acc
      else if c == ')' then go r (depth - 1) neg (c :: cur) acc
      else if depth == 0 && (c == '+' || c == '-') && !cur.isEmpty then
        go r depth (c == '-') [] (acc.cons (neg, cur.reverse))
      else go r depth neg (c :: cur) acc
  go cs 0 false [] []

/-- strip one pair of fully enclosing parentheses, if any -/
def stripParens (cs : List Char) : Option (List Char) :=
  match cs with
  | '(' :: r =>
    match r.reverse with
    | ')' :: m =>
      let inner := m.reverse
      -- the parentheses enclose everything iff depth never returns to 0 inside
      let ok := (inner.foldl (fun (st : Int × Bool) c =>
                  let d := if c == '(' then st.1 + 1 else if c == ')' then st.1 - 1 else st.1
                  (d, st.2 && d ≥ 0)) (0, true))
      if ok.2 && ok.1 == 0 then some inner else none
    | _ => none
  | _ => none

/-- expression value: sums of terms, `<`/`>` byte selectors, parentheses. Fuel-bounded. -/
def evalExpr (env : Env) : Nat → List Char → Option Int
  | 0, _ => none
  | fuel + 1, cs0 =>
    let cs := trimC cs0
    match cs with
    | '<' :: r => (evalExpr env fuel r).map fun v => v % 256
    | '>' :: r => (evalExpr env fuel r).map fun v => (v / 256) % 256
    | '-' :: r => (evalExpr env fuel r).map fun v => -v
    | _ =>
      match stripParens cs with
      | some inner => evalExpr env fuel inner
      | none =>
        match splitTerms cs with
        | [(false, t)] => evalTerm env (trimC t)
        | ts => ts.foldlM (fun acc (p : Bool × List Char) =>
                  (evalExpr env fuel p.2).map fun v => if p.1 then acc - v else acc + v) 0

def evalStr (env : Env) (s : String) : Option Int := evalExpr env 8 s.toList

/-! ### operand syntax → (operand, mode) -/

inductive Syn where
  | none | imm (e : String) | dir (e : String) | idxX (e : String) | idxY (e : String)
  | indY (e : String) | indX (e : String) | ind (e : String)
  deriving Repr, DecidableEq

def endsWithCI (cs suffix : List Char) : Option (List Char) :=
  let n := cs.length - suffix.length
  if cs.length ≥ suffix.length && (cs.drop n).map Char.toUpper == suffix then some (cs.take n) else none

def parseSyn (s : String) : Syn :=
  let cs := trimC s.toList
  match cs with
  | [] => .none
  | '#' :: r => .imm (String.ofList r)
  | _ =>
    match endsWithCI cs [')', ',', 'Y'] with
    | some r => (match r with | '(' :: e => .indY (String.ofList e) | _ => .dir s)
    | none =>
    match endsWithCI cs [',', 'X', ')'] with
    | some r => (match r with | '(' :: e => .indX (String.ofList e) | _ => .dir s)
    | none =>
    match endsWithCI cs [',', 'X'] with
    | some r => .idxX (String.ofList r)
    | none =>
    match endsWithCI cs [',', 'Y'] with
    | some r => .idxY (String.ofList r)
    | none =>
    match stripParens cs with
    | some e => .ind (String.ofList e)
    | none => .dir (String.ofList cs)

def Mn.isJump : Mn → Bool
  | .JMP | .JSR => true
  | _ => false

/-- choose zero-page form when the value is < $100 and the form exists (dasm's rule) -/
def pickMode (mn : Mn) (v : Int) (zpM absM : Mode) : Option Mode :=
  if 0 ≤ v && v < 256 && legal mn zpM then some zpM
  else if 0 ≤ v && v < 65536 && legal mn absM then some absM
  else none

/-- resolve an instruction to a semantic operand and an addressing mode.
    `none` = the assembler would reject it (unknown symbol, no such mode, range). -/
def resolve (env : Env) (mn : Mn) (opd : String) : Option (Opd × Mode) :=
  if mn.isCondBranch then
    if opd.isEmpty then none else some (.lbl opd, .rel)
  else
  match (if opd == "A" && legal mn .acc && (env.get? "A").isNone then Syn.none else parseSyn opd) with
  | .none =>
    if legal mn .impl then some (.none, .impl)
    else if legal mn .acc then some (.none, .acc) else none
  | .imm e => do
    let v ← evalStr env e
    if legal mn .imm && -128 ≤ v && v < 256 then some (.imm (BitVec.ofInt 8 v), .imm) else none
  | .dir e =>
    if mn.isJump then
      (if legal mn .abs then some (.lbl e, .abs) else none)
    else do
      let v ← evalStr env e
      let m ← pickMode mn v .zp .abs
      some (.mem (BitVec.ofInt 16 v), m)
  | .idxX e => do
    let v ← evalStr env e
    let m ← pickMode mn v .zpX .absX
    some (.memX (BitVec.ofInt 16 v) (m == .zpX), m)
  | .idxY e => do
    let v ← evalStr env e
    let m ← pickMode mn v .zpY .absY
    some (.memY (BitVec.ofInt 16 v) (m == .zpY), m)
  | .indY e => do
    let v ← evalStr env e
    if legal mn .indY && 0 ≤ v && v < 256 then some (.indY (BitVec.ofInt 8 v), .indY) else none
  | .indX e => do
    let v ← evalStr env e
    if legal mn .indX && 0 ≤ v && v < 256 then some (.indX (BitVec.ofInt 8 v), .indX) else none
  | .ind e =>
    if mn == .JMP then some (.lbl e, .ind) else none

/-- split an inline-assembly text into mnemonic and operand (comments after `;` dropped) -/
def parseInline (t : String) : Option (Mn × String) :=
  let cs := trimC (t.toList.takeWhile (· != ';'))
  let m := cs.takeWhile (fun c => c != ' ' && c != '\t')
  let r := trimC ((cs.drop m.length).map fun c => if c == '\t' then ' ' else c)
  (Mn.ofString? (String.ofList m)).map fun mn => (mn, String.ofList r)

/-- length the independent encoder gives a line; `none` = rejected -/
def Line.asmLen (env : Env) : Line → Option Nat
  | .instr i => (resolve env i.mn i.opd).map fun p => p.2.len
  | .inline _ s => some s          -- counted at its declared (or default) size, as the property says
  | _ => some 0

def asmLen (env : Env) (c : Code) : Option Nat :=
  c.foldlM (fun n l => (l.asmLen env).map (n + ·)) 0

end CV
