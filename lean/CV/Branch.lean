/-
  CV.Branch — port of `AssemblyCode::check_branches` (src/assemble.rs).
  The up/down lock-step label search is `scan`; a repair is `repairAt`; the driver loop is
  `checkBranches` (fuel-indexed: the Rust loop has no bound; running out of fuel is reported
  as its own outcome and never equated with a result).
-/
import CV.Asm
namespace CV

/-- the six mnemonics `check_branches` looks at -/
def Mn.isChecked : Mn → Bool
  | .BEQ | .BNE | .BMI | .BPL | .BCS | .BCC => true
  | _ => false

/-- lock-step search: `up` starts with the branch itself and walks towards line 0, `down` starts
    just after the branch. Result: (found above?, bytes counted on that side).
    `none` = the label is in neither direction (`unreachable!()` in the Rust code). -/
def scanDown (tgt : String) : List Line → Nat → Option Nat
  | [], _ => none
  | d :: ds, bb => if d = .label tgt then some bb else scanDown tgt ds (bb + d.size)

def scan (tgt : String) : List Line → List Line → Nat → Nat → Option (Bool × Nat)
  | [], down, _, bb => (scanDown tgt down bb).map fun d => (false, d)
  | u :: us, down, ba, bb =>
      if u = .label tgt then some (true, ba) else
      match down with
      | [] => scan tgt us [] (ba + u.size) bb
      | d :: ds => if d = .label tgt then some (false, bb) else scan tgt us ds (ba + u.size) (bb + d.size)

/-- distance measured for the branch at `pos` -/
def measure (code : Code) (pos : Nat) (tgt : String) : Option (Bool × Nat) :=
  scan tgt (code.take (pos + 1)).reverse (code.drop (pos + 1)) 0 0

inductive Far where
  | none                -- every checked branch is near
  | at (pos : Nat)      -- first far branch
  | panic               -- a branch names a label that is not in the vector
  deriving Repr, DecidableEq

/-- first checked branch (scanning from line `i`) whose measured distance exceeds 127 -/
def findFarFrom (code : Code) : Nat → List Line → Far
  | _, [] => .none
  | i, l :: rest =>
    match l with
    | .instr ins =>
      if ins.mn.isChecked then
        match measure code i ins.opd with
        | Option.none => .panic
        | some (_, d) => if d > 127 then .at i else findFarFrom code (i + 1) rest
      else findFarFrom code (i + 1) rest
    | _ => findFarFrom code (i + 1) rest

def findFar (code : Code) : Far := findFarFrom code 0 code

def mkBranch (mn : Mn) (l : String) : Line :=
  .instr { mn := mn, opd := l, cycles := 2, cyclesAlt := some 3, nbBytes := 2, prot := false }

def mkJmp (l : String) : Line :=
  .instr { mn := .JMP, opd := l, cycles := 3, cyclesAlt := none, nbBytes := 3, prot := false }

/-- shape of the far branch: the mnemonic, and whether it is the first half of a
    `BMI|BCC l ; BEQ l` pair -/
def isPair (code : Code) (pos : Nat) (mn : Mn) (tgt : String) : Bool :=
  (mn == .BMI || mn == .BCC) &&
  match code[pos + 1]? with
  | some (.instr i2) => i2.mn == .BEQ && i2.opd == tgt
  | _ => false

/-- the lines that replace the far branch (or pair): inverse branch around a jump -/
def repairSeqL (mn : Mn) (pair : Bool) (tgt fix fixup : String) : List Line :=
  let signed := mn == .BPL || mn == .BMI
  let head : List Line :=
    if pair then [mkBranch .BEQ fixup, mkBranch (if signed then .BPL else .BCS) fix, .label fixup]
    else match mn with
      | .BNE => [mkBranch .BEQ fix]
      | .BEQ => [mkBranch .BNE fix]
      | .BMI => [mkBranch .BPL fix]
      | .BCC => [mkBranch .BCS fix]
      | .BPL => [mkBranch .BMI fix]
      | .BCS => [mkBranch .BCC fix]
      | _ => []
  head ++ [mkJmp tgt, .label fix]

def repairSeq (mn : Mn) (pair : Bool) (tgt : String) (n : Nat) : List Line :=
  repairSeqL mn pair tgt (".fix" ++ toString n) (".fixup" ++ toString n)

def repairAt (code : Code) (pos : Nat) (n : Nat) : Code :=
  match code[pos]? with
  | some (.instr ins) =>
    let pair := isPair code pos ins.mn ins.opd
    code.take pos ++ repairSeq ins.mn pair ins.opd n ++ code.drop (pos + (if pair then 2 else 1))
  | _ => code

inductive BrResult where
  | ok (code : Code) (fixes : Nat)
  | panic
  | diverge
  deriving Repr

def checkBranchesGo : Nat → Code → Nat → BrResult
  | 0, _, _ => .diverge
  | fuel + 1, code, n =>
    match findFar code with
    | .none => .ok code n
    | .panic => .panic
    | .at pos => checkBranchesGo fuel (repairAt code pos (n + 1)) (n + 1)

/-- every repair replaces one checked original branch; the fuel bound is generous -/
def checkBranches (code : Code) : BrResult := checkBranchesGo (4 * code.length + 16) code 0

end CV
