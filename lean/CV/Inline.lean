/-
  CV.Inline — port of `AssemblyCode::append_code` (src/assemble.rs) and of
  `GeneratorState::push_code` (src/generate/generate_asm.rs): inline expansion with label renaming.
-/
import CV.Asm
namespace CV

def Mn.isRenamed : Mn → Bool
  | .BCC | .BCS | .BEQ | .BMI | .BNE | .BPL | .JMP => true
  | _ => false

def suffixOf (n : Nat) : String := "inline" ++ toString n

def renameLine (n : Nat) : Line → Line
  | .label l => .label (l ++ suffixOf n)
  | .instr i =>
    if i.mn.isRenamed then .instr { i with opd := i.opd ++ suffixOf n } else .instr i
  | l => l

/-- `caller.append_code(&callee, n)` -/
def appendCode (caller callee : Code) (n : Nat) : Code := caller ++ callee.map (renameLine n)

/-- `push_code`: the counter has already been incremented to `n` -/
def pushCode (caller callee : Code) (n : Nat) : Code :=
  appendCode caller callee n ++ [.label (".endofinline" ++ toString n)]

/-- labels defined by a line vector, in order -/
def labelsOf : Code → List String
  | [] => []
  | .label l :: r => l :: labelsOf r
  | _ :: r => labelsOf r

/-- label operands referenced by branches and jumps (the operands `append_code` renames) -/
def refsOf : Code → List String
  | [] => []
  | .instr i :: r => if i.mn.isRenamed then i.opd :: refsOf r else refsOf r
  | _ :: r => refsOf r

end CV
