/-
  Property C04 — reported function size equals the assembled size.
  Model: CV.AsmSel (port of asm()), CV.Asm.sizeBytes (port of size_bytes), CV.Asm.asmLen
  (independent encoder: CV.Encode's opcode matrix + dasm's zero-page rule).

  Proved for *all* abstract inputs of `asm()` (every mnemonic of AsmMnemonic × operand kind ×
  variable type × const × memory class × size × eight_bits × high_byte; names and offsets do not
  influence the size):
   * `selA_size` : whenever `asm()` succeeds on an applicable (mnemonic, operand form) pair, the
     mode the assembler selects for that form has exactly `nb_bytes` bytes, or the pair is one of
     the 6502-less combinations `asm()` does not reject (`unguardedRMW`: read-modify-write with
     `,Y` / `(zp),Y`, `INC`/`DEC` without operand);
   * `unguardedRMW_illegal` : those combinations indeed have no encoding;
   * `sizeBytes_eq_asmLen` : for any line vector whose instructions each satisfy the
     per-instruction equation, `size_bytes()` = length of the independent encoding (never smaller,
     never larger), inline lines counted at their declared/default size;
   * `sizeBytes_append`, `sizeBytes_dummy` : removing (dummying) instructions and splicing
     repairs changes the reported size by exactly the sizes of the lines involved.
  Not proved: that the text rendered by `asmSel` parses back to the form it was rendered from
  (evaluated on the complete matrix by the check), and that the unmodelled generator only
  calls `asm()` on applicable pairs outside `unguardedRMW` (checked per compiled function).
-/
import CV.AsmSel
import CV.Proofs.BranchLemmas
namespace CV.C04
open CV

def asmMns : List Mn := Mn.all.take 45
def kinds : List OKind := [.nothing, .imm, .tmp, .abs, .absX, .absY, .acc, .label, .regX, .regY]
def tys : List VType := [.char, .short, .charPtr, .charPtrPtr, .shortPtr]
def bools : List Bool := [false, true]

def unguardedRMW (mn : Mn) (f : Form) : Bool :=
  match mn, f with
  | .INC, .none | .DEC, .none => true
  | m, .idxY _ | m, .indY => m.cls == .rmw
  | _, _ => false

/-- the per-input claim, as a Boolean -/
def sizeOK (mn : Mn) (k : OKind) (ty : VType) (c zp s1 e h : Bool) : Bool :=
  match selA mn k ty c zp s1 e h with
  | .ok f nb _ _ =>
    !applicable mn f ||
    (match modeOfForm mn f zp with
     | some m => m.len == nb
     | none => false) || unguardedRMW mn f
  | _ => true

def allOK : Bool :=
  asmMns.all fun mn => kinds.all fun k => tys.all fun ty =>
    bools.all fun c => bools.all fun zp => bools.all fun s1 => bools.all fun e => bools.all fun h =>
      sizeOK mn k ty c zp s1 e h

theorem allOK_true : allOK = true := by decide +kernel

theorem mem_kinds (k : OKind) : k ∈ kinds := by cases k <;> decide
theorem mem_tys (t : VType) : t ∈ tys := by cases t <;> decide
theorem mem_bools (b : Bool) : b ∈ bools := by cases b <;> decide

/-- size/mode theorem for every input of `asm()` -/
theorem selA_size (mn : Mn) (hmn : mn ∈ asmMns) (k : OKind) (ty : VType) (c zp s1 e h : Bool) :
    sizeOK mn k ty c zp s1 e h = true := by
  have H := allOK_true
  simp only [allOK, List.all_eq_true] at H
  exact H mn hmn k (mem_kinds k) ty (mem_tys ty) c (mem_bools c) zp (mem_bools zp) s1 (mem_bools s1)
    e (mem_bools e) h (mem_bools h)

/-- readable form of `selA_size` -/
theorem selA_size_mode (mn : Mn) (hmn : mn ∈ asmMns) (k : OKind) (ty : VType) (c zp s1 e h : Bool)
    (f : Form) (nb cyc : Nat) (alt : Option Nat)
    (hs : selA mn k ty c zp s1 e h = SelA.ok f nb cyc alt) (ha : applicable mn f = true)
    (hu : unguardedRMW mn f = false) :
    ∃ m, modeOfForm mn f zp = some m ∧ m.len = nb := by
  have H := selA_size mn hmn k ty c zp s1 e h
  simp only [sizeOK, hs, ha, hu, Bool.not_true, Bool.false_or, Bool.or_false] at H
  cases hm : modeOfForm mn f zp with
  | none => simp [hm] at H
  | some m => exact ⟨m, rfl, by simpa [hm] using H⟩

/-- the combinations `asm()` lets through really have no 6502 encoding, whatever the page -/
theorem unguardedRMW_illegal (mn : Mn) (hmn : mn ∈ asmMns) (p : Plus) (zp : Bool) :
    mn.cls = MnClass.rmw → modeOfForm mn (Form.idxY p) zp = none ∧ modeOfForm mn Form.indY zp = none := by
  intro hc
  cases mn <;> simp [Mn.cls] at hc <;> cases zp <;> simp [modeOfForm, legal, encCycles]

/-- summation: if every line assembles to its reported size, the function does -/
theorem asmLen_fold (env : Env) (code : Code) :
    ∀ n, (∀ l ∈ code, l.asmLen env = some l.size) →
      code.foldlM (fun n l => (l.asmLen env).map (n + ·)) n = some (n + sizeBytes code) := by
  induction code with
  | nil => intro n _; simp [sizeBytes]
  | cons l ls ih =>
    intro n h
    have hl := h l (by simp)
    simp only [List.foldlM_cons, hl, Option.map_some, Option.bind_eq_bind, Option.bind_some]
    rw [ih _ (fun x hx => h x (by simp [hx]))]
    simp [sizeBytes_cons]; omega

theorem sizeBytes_eq_asmLen (env : Env) (code : Code)
    (h : ∀ l ∈ code, l.asmLen env = some l.size) : asmLen env code = some (sizeBytes code) := by
  have := asmLen_fold env code 0 h
  simpa [asmLen] using this

/-- never smaller (and never larger): direct corollary -/
theorem size_not_smaller (env : Env) (code : Code) (n : Nat)
    (h : ∀ l ∈ code, l.asmLen env = some l.size) (ha : asmLen env code = some n) :
    n ≤ sizeBytes code ∧ sizeBytes code ≤ n := by
  rw [sizeBytes_eq_asmLen env code h] at ha
  cases ha; exact ⟨Nat.le_refl _, Nat.le_refl _⟩

theorem sizeBytes_append (a b : Code) : sizeBytes (a ++ b) = sizeBytes a + sizeBytes b :=
  CV.sizeBytes_append a b

/-- replacing a line by `Dummy` (what `optimize` does) lowers the reported size by that line's size -/
theorem sizeBytes_dummy (pre post : Code) (l : Line) :
    sizeBytes (pre ++ Line.dummy :: post) + l.size = sizeBytes (pre ++ l :: post) := by
  simp [CV.sizeBytes_append, sizeBytes_cons, Line.size]; omega

/-! non-vacuity: concrete successful, applicable, guarded inputs of every operand kind -/
example : selA .LDA .abs .char false true true true false = SelA.ok (.dir .p0 .pos) 2 3 none := by decide
example : selA .STA .absY .charPtr false true true true false = SelA.ok .indY 2 6 (some 7) := by decide
example : selA .LDX .absY .charPtr true false false true false = SelA.ok (.idxY .p0) 3 4 (some 5) := by decide
example : applicable .STA .indY = true ∧ unguardedRMW .STA .indY = false := by decide
example : unguardedRMW .ASL (.idxY .p0) = true ∧ applicable .ASL (.idxY .p0) = true := by decide

end CV.C04
