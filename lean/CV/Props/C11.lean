/-
  Property C11 — comments, layout and listing options never affect behaviour.
  Model: CV.Cpp.scanLine (comment removal of cpp::process), CV.Opt (listing comments).

  Proved:
   * `splitOnce_first`   : the search primitive returns the FIRST occurrence of the pattern
   * `comment_closes_at_first` : inside a block comment the scanner resumes right after the first
     `*/`, whatever the comment contains before it (quotes, `//`, `/*`, directives, URLs)
   * `line_comment_to_eol` : text before a `//` (free of quotes and `/*`) is kept, everything after
     it on the line is dropped, the comment state is not entered
   * `optimize_keeps_comments` : listing comments (`--insert_code`) are never touched or moved by the
     optimiser (from C02's loop invariant), so they can only make it remove less
   * `block_comment_opens` : a `/*` that no quote and no `//` precedes opens the comment, and the scanner goes on
     inside it with the UNTRUNCATED remainder of the line, whatever that contains (`//`, quotes, `/*`) — what the
     `fix:` for DESIGN.md row 10 restored (`beforeLine_keeps`, `splitOnce_open`)
  Not proved: token-level invariance under blanks/tabs/splices (pest's WHITESPACE rule, trusted) and
  that fewer peephole removals preserve behaviour (C02's co-execution); both are covered by the
  decorated-twin comparison of the check.
-/
import CV.Cpp
import CV.Proofs.OptLemmas
set_option linter.unusedSimpArgs false
namespace CV.C11
open CV.Cpp

/-- `pat` occurs in `a ++ pat ++ b` first at position `a.length` -/
def FirstAt (pat a b : Str) : Prop :=
  ∀ j, j < a.length → pat.isPrefixOf ((a ++ pat ++ b).drop j) = false

theorem splitOnce_first (pat : Str) (hp : pat ≠ []) :
    ∀ (a b : Str), FirstAt pat a b → splitOnce pat (a ++ pat ++ b) = some (a, b) := by
  intro a
  induction a with
  | nil =>
    intro b _
    cases pat with
    | nil => exact absurd rfl hp
    | cons p ps =>
      simp only [List.nil_append, List.cons_append, splitOnce]
      have : (p :: ps).isPrefixOf (p :: (ps ++ b)) = true := by
        simp [List.isPrefixOf]
      simp [this]
  | cons x xs ih =>
    intro b h
    have h0 := h 0 (by simp)
    have e : (x :: xs) ++ pat ++ b = x :: (xs ++ pat ++ b) := by simp
    have h0' : pat.isPrefixOf (x :: (xs ++ pat ++ b)) = false := by
      rw [← e]; simpa using h0
    have hrec : FirstAt pat xs b := by
      intro j hj
      have := h (j + 1) (by simp; omega)
      rw [e] at this
      simpa using this
    rw [e, splitOnce]
    simp only [h0', Bool.false_eq_true, if_false, ih b hrec]

/-- inside a block comment: resume right after the first `*/` -/
theorem comment_closes_at_first (asm : Bool) (lb fuel : Nat) (body after acc : Str) (ins : Bool)
    (lits : List Str) (h : FirstAt ['*', '/'] body after) (h1 : after ≠ []) (h2 : after ≠ ['\n']) :
    scanLine asm lb (fuel + 1) true (body ++ ['*', '/'] ++ after) acc ins lits
      = scanLine asm lb fuel false after acc true lits := by
  have hs := splitOnce_first ['*', '/'] (by simp) body after h
  have hne : body ++ ['*', '/'] ++ after ≠ [] := by simp
  cases hr : body ++ ['*', '/'] ++ after with
  | nil => exact absurd hr hne
  | cons c cs =>
    rw [hr] at hs
    simp only [scanLine, hs]
    have e1 : after.isEmpty = false := by cases after <;> simp_all
    have e2 : (after == ['\n']) = false := by
      cases hq : after == ['\n'] with
      | false => rfl
      | true => exact absurd (by simpa using hq) h2
    simp [e1, e2]

/-- a `//` comment: the text before it is kept, the rest of the line dropped -/
theorem line_comment_to_eol (lb fuel : Nat) (s2 tail acc : Str) (ins : Bool) (lits : List Str)
    (hne : s2 ++ ['/', '/'] ++ tail ≠ [])
    (hfirst : FirstAt ['/', '/'] s2 tail)
    (hq : splitOnce ['"'] s2 = none) (hb : splitOnce ['/', '*'] s2 = none) :
    scanLine false lb (fuel + 1) false (s2 ++ ['/', '/'] ++ tail) acc ins lits
      = .ok { text := acc ++ s2, insertIt := if (acc ++ s2).isEmpty then false else ins,
              inComment := false, literals := lits } := by
  have hs := splitOnce_first ['/', '/'] (by simp) s2 tail hfirst
  cases hr : s2 ++ ['/', '/'] ++ tail with
  | nil => exact absurd hr hne
  | cons c cs =>
    rw [hr] at hs
    simp only [scanLine, hs, hb, hq]
    simp

/-! ### the opening side of a block comment -/

/-- the text the scanner searches for `/*`: the line up to its first `//` -/
def beforeLine (rem : Str) : Str := match splitOnce ['/', '/'] rem with | some (b, _) => b | none => rem

/-- when no `//` starts before the `/*`, the searched text still contains the whole `s2 ++ "/*"` -/
theorem beforeLine_keeps (rest : Str) : ∀ (s2 : Str),
    (∀ j, j < s2.length → ['/', '/'].isPrefixOf ((s2 ++ ['/', '*'] ++ rest).drop j) = false) →
    ∃ x, beforeLine (s2 ++ ['/', '*'] ++ rest) = s2 ++ ['/', '*'] ++ x := by
  intro s2
  induction s2 with
  | nil =>
    intro _
    simp only [List.nil_append, List.cons_append, beforeLine, splitOnce]
    have h1 : ['/', '/'].isPrefixOf ('/' :: '*' :: rest) = false := by simp [List.isPrefixOf]
    simp only [h1, Bool.false_eq_true, if_false]
    cases rest with
    | nil => exact ⟨[], by simp [splitOnce]⟩
    | cons r rs =>
      have h2 : ['/', '/'].isPrefixOf ('*' :: r :: rs) = false := by simp [List.isPrefixOf]
      simp only [h2, Bool.false_eq_true, if_false]
      cases h3 : splitOnce ['/', '/'] (r :: rs) with
      | none => exact ⟨r :: rs, by simp⟩
      | some p => exact ⟨p.1, by simp⟩
  | cons c cs ih =>
    intro h
    have h0 := h 0 (by simp)
    have hrec : ∀ j, j < cs.length → ['/', '/'].isPrefixOf ((cs ++ ['/', '*'] ++ rest).drop j) = false := by
      intro j hj
      have := h (j + 1) (by simp; omega)
      simpa using this
    obtain ⟨x, hx⟩ := ih hrec
    have e : (c :: cs) ++ ['/', '*'] ++ rest = c :: (cs ++ ['/', '*'] ++ rest) := by simp
    have h0' : ['/', '/'].isPrefixOf (c :: (cs ++ ['/', '*'] ++ rest)) = false := by rw [← e]; simpa using h0
    rw [e]
    unfold beforeLine at hx ⊢
    simp only [splitOnce, h0', Bool.false_eq_true, if_false]
    cases h3 : splitOnce ['/', '/'] (cs ++ ['/', '*'] ++ rest) with
    | none =>
      rw [h3] at hx
      exact ⟨rest, by simp⟩
    | some p =>
      rw [h3] at hx
      simp only at hx
      exact ⟨x, by simp [hx]⟩

/-- whether `/*` starts inside `s2` does not depend on what follows the `/*` -/
theorem splitOnce_open (rest : Str) : ∀ (s2 x : Str), FirstAt ['/', '*'] s2 rest →
    splitOnce ['/', '*'] (s2 ++ ['/', '*'] ++ x) = some (s2, x) := by
  intro s2
  induction s2 with
  | nil => intro x _; simp [splitOnce, List.isPrefixOf]
  | cons c cs ih =>
    intro x h
    have h0 := h 0 (by simp)
    have hrec : FirstAt ['/', '*'] cs rest := by
      intro j hj
      have := h (j + 1) (by simp; omega)
      simpa using this
    have e : (c :: cs) ++ ['/', '*'] ++ x = c :: (cs ++ ['/', '*'] ++ x) := by simp
    have h0' : ['/', '*'].isPrefixOf (c :: (cs ++ ['/', '*'] ++ x)) = false := by
      have h00 : ['/', '*'].isPrefixOf (c :: (cs ++ ['/', '*'] ++ rest)) = false := by simpa using h0
      cases cs with
      | nil => simpa [List.isPrefixOf] using h00
      | cons d ds => simpa [List.isPrefixOf] using h00
    rw [e, splitOnce]
    simp only [h0', Bool.false_eq_true, if_false, ih x hrec]

/-- a block comment opens at the first `/*` that no quote and no `//` precedes, and the scanner goes on INSIDE the
    comment with the untruncated remainder of the line, whatever it contains (`//`, quotes, another `/*`): the
    behaviour the repair of DESIGN.md row 10 restored -/
theorem block_comment_opens (asm : Bool) (lb fuel : Nat) (s2 rest acc : Str) (ins : Bool) (lits : List Str)
    (hfirst : FirstAt ['/', '*'] s2 rest) (hq : splitOnce ['"'] s2 = none)
    (hnl : ∀ j, j < s2.length → ['/', '/'].isPrefixOf ((s2 ++ ['/', '*'] ++ rest).drop j) = false) :
    scanLine asm lb (fuel + 1) false (s2 ++ ['/', '*'] ++ rest) acc ins lits
      = scanLine asm lb fuel true rest (acc ++ s2) (if (acc ++ s2).isEmpty then false else ins) lits := by
  obtain ⟨x, hx⟩ := beforeLine_keeps rest s2 hnl
  have hs := splitOnce_open rest s2 x hfirst
  have hne : s2 ++ ['/', '*'] ++ rest ≠ [] := by simp
  cases hr : s2 ++ ['/', '*'] ++ rest with
  | nil => exact absurd hr hne
  | cons c cs =>
    unfold beforeLine at hx
    rw [hr] at hx
    have hdrop : (c :: cs).drop (s2.length + 2) = rest := by
      rw [← hr]; simp
    cases h3 : splitOnce ['/', '/'] (c :: cs) with
    | none =>
      rw [h3] at hx
      simp only at hx
      have hxr : x = rest := by
        have := hx.symm.trans hr.symm
        simpa using this
      subst hxr
      simp only [scanLine, h3]
      rw [hx, hs]
      simp only [hq, Option.map_none, hdrop]
      cases asm <;> simp
    | some p =>
      rw [h3] at hx
      simp only at hx
      simp only [scanLine, h3]
      rw [hx, hs]
      simp only [hq, Option.map_none, hdrop]
      cases asm <;> simp

/-- listing comments (`--insert_code`) are never touched by the optimiser -/
theorem optimize_keeps_comments (c : CV.Code) (i : Nat) (s : String)
    (h : c[i]? = some (CV.Line.comment s)) : (CV.optimize c).1[i]? = some (CV.Line.comment s) := by
  have := (CV.optimize_inv c).fixed i (CV.Line.comment s) h rfl
  simpa using this

/-! non-vacuity: the shape of DESIGN.md row 10 — a URL inside a comment -/
example : ∀ j, j < 16 →
    ['*', '/'].isPrefixOf ((" see http://x.y ".toList ++ ['*', '/'] ++ " char b;".toList).drop j) = false := by
  decide

/-- `x = 1; /* see http://a//b */ y = 2;` — the `//` inside the comment does not cut the line -/
example : (match scanLine false 0 9 false ['x', '=', '1', ';', '/', '*', 'h', ':', '/', '/', 'a', '/', '/', 'b', '*', '/', 'y', '=', '2', ';'] [] false [] with
    | .ok o => o.text == ['x', '=', '1', ';', 'y', '=', '2', ';'] && !o.inComment
    | .error _ => false) = true := by decide

end CV.C11
