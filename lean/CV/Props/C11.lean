/-
  Property C11 — comments, layout and listing options never affect behaviour.
  Model: CV.Cpp.scanLine (comment removal of cpp::process), CV.Opt (listing comments).

  Proved:
   * `splitOnce_first`   : the search primitive returns the FIRST occurrence of the pattern
   * `comment_closes_at_first` : inside a block comment the scanner resumes right after the first
     `*/`, whatever the comment contains before it (quotes, `//`, `/*`, directives, URLs)
   * `line_comment_to_eol` : text before a `//` (free of quotes and `/*`) is kept, everything after
     it on the line is dropped, the comment state is not entered
   * `optimize_keeps_comments` : listing comments (`--insert_code`) are never touched or moved by the
     optimiser (from C02's loop invariant), so they can only make it remove less
  Not proved: that a `/*` preceding any `//` opens the comment in the untruncated remainder of the
  line (what the `fix:` for DESIGN.md row 10 restored; model line `afterBlock`, exercised by the
  regression corpus and the correspondence); token-level invariance under blanks/tabs/splices (pest's WHITESPACE rule, trusted) and
  that fewer peephole removals preserve behaviour (C02's co-execution); both are covered by the
  decorated-twin comparison of the check.
-/
import CV.Cpp
import CV.Proofs.OptLemmas
set_option linter.unusedSimpArgs false
namespace CV.C11
open CV.Cpp

/-- `pat` occurs in `a ++ pat ++ b` first at position `a.length` -/
def FirstAt (pat a b : Str) : Prop :=
  ∀ j, j < a.length → pat.isPrefixOf ((a ++ pat ++ b).drop j) = false

theorem splitOnce_first (pat : Str) (hp : pat ≠ []) :
    ∀ (a b : Str), FirstAt pat a b → splitOnce pat (a ++ pat ++ b) = some (a, b) := by
  intro a
  induction a with
  | nil =>
    intro b _
    cases pat with
    | nil => exact absurd rfl hp
    | cons p ps =>
      simp only [List.nil_append, List.cons_append, splitOnce]
      have : (p :: ps).isPrefixOf (p :: (ps ++ b)) = true := by
        simp [List.isPrefixOf]
      simp [this]
  | cons x xs ih =>
    intro b h
    have h0 := h 0 (by simp)
    have e : (x :: xs) ++ pat ++ b = x :: (xs ++ pat ++ b) := by simp
    have h0' : pat.isPrefixOf (x :: (xs ++ pat ++ b)) = false := by
      rw [← e]; simpa using h0
    have hrec : FirstAt pat xs b := by
      intro j hj
      have := h (j + 1) (by simp; omega)
      rw [e] at this
      simpa using this
    rw [e, splitOnce]
    simp only [h0', Bool.false_eq_true, if_false, ih b hrec]

/-- inside a block comment: resume right after the first `*/` -/
theorem comment_closes_at_first (asm : Bool) (lb fuel : Nat) (body after acc : Str) (ins : Bool)
    (lits : List Str) (h : FirstAt ['*', '/'] body after) (h1 : after ≠ []) (h2 : after ≠ ['\n']) :
    scanLine asm lb (fuel + 1) true (body ++ ['*', '/'] ++ after) acc ins lits
      = scanLine asm lb fuel false after acc true lits := by
  have hs := splitOnce_first ['*', '/'] (by simp) body after h
  have hne : body ++ ['*', '/'] ++ after ≠ [] := by simp
  cases hr : body ++ ['*', '/'] ++ after with
  | nil => exact absurd hr hne
  | cons c cs =>
    rw [hr] at hs
    simp only [scanLine, hs]
    have e1 : after.isEmpty = false := by cases after <;> simp_all
    have e2 : (after == ['\n']) = false := by
      cases hq : after == ['\n'] with
      | false => rfl
      | true => exact absurd (by simpa using hq) h2
    simp [e1, e2]

/-- a `//` comment: the text before it is kept, the rest of the line dropped -/
theorem line_comment_to_eol (lb fuel : Nat) (s2 tail acc : Str) (ins : Bool) (lits : List Str)
    (hne : s2 ++ ['/', '/'] ++ tail ≠ [])
    (hfirst : FirstAt ['/', '/'] s2 tail)
    (hq : splitOnce ['"'] s2 = none) (hb : splitOnce ['/', '*'] s2 = none) :
    scanLine false lb (fuel + 1) false (s2 ++ ['/', '/'] ++ tail) acc ins lits
      = .ok { text := acc ++ s2, insertIt := if (acc ++ s2).isEmpty then false else ins,
              inComment := false, literals := lits } := by
  have hs := splitOnce_first ['/', '/'] (by simp) s2 tail hfirst
  cases hr : s2 ++ ['/', '/'] ++ tail with
  | nil => exact absurd hr hne
  | cons c cs =>
    rw [hr] at hs
    simp only [scanLine, hs, hb, hq]
    simp

/-- listing comments (`--insert_code`) are never touched by the optimiser -/
theorem optimize_keeps_comments (c : CV.Code) (i : Nat) (s : String)
    (h : c[i]? = some (CV.Line.comment s)) : (CV.optimize c).1[i]? = some (CV.Line.comment s) := by
  have := (CV.optimize_inv c).fixed i (CV.Line.comment s) h rfl
  simpa using this

/-! non-vacuity: the shape of DESIGN.md row 10 — a URL inside a comment -/
example : ∀ j, j < 16 →
    ['*', '/'].isPrefixOf ((" see http://x.y ".toList ++ ['*', '/'] ++ " char b;".toList).drop j) = false := by
  decide

end CV.C11
