/-
  Property C01 — emitted 6502 code computes what the C source says.
  Models: CV.GenFlat + CV.GenStruct (port of the generator for the declared fragment, stages 1 and 2),
  CV.Mos (6502 semantics), CV.CSem (the C reading used by the co-execution search).

  THE FRAGMENT (`SInFragment`): programs over global `unsigned char` variables, elements of global `unsigned char`
  arrays subscripted by a literal, X or Y, the register variables X and Y, and constants, built from
      lv = a | lv = a ∘ b | lv ∘= a | lv++ | lv--     lv ::= v | t[i] | X | Y    a, b ::= n | v | t[i] | X | Y
      i ::= n | X | Y     ∘ ∈ {+, −, &, |, ^}          (stage 1: v only; stage 3: X and Y; stage 4: array elements)
      s = w | s = w ∘ w | s ∘= w      s an `unsigned short` variable; w ::= s | n ≤ 65535 | v      (stage 6)
      lv = a ∘ b ∘ c …                 chains of two or more operators grouped to the left              (stage 7)
      lv = e    e ::= a ∘ b | (e) ∘ a | a ∘ (e)    linear expressions: one operand of every operator is atomic (stage 8)
      s++ | s--                        on a 16-bit variable, as statements                              (stage 9)
      lv = e    e ::= a | (e) ∘ (e)    any tree the generator accepts (PHA / PLA spills)                 (stage 10)
                e ::= … | (e) << k | (e) >> k | ~(e) | -(e)      k a literal 0..7                        (stage 11)
      { S… } | if (c) S | if (c) S else S | while (c) S | do S while (c); | for (F; c; F) S   (stage 2)
      break; | continue; | if (c) break; | if (c) continue;   inside loops                    (stage 5)
      c ::= a ⋈ b | lv | !lv | c && c | c || c | !c     ⋈ ∈ {==, !=, <, >=, >, <=}; no ordered comparison with
      c ::= … | (e) ⋈ m | m ⋈ (e) | (e) | !(e)          e a tree, m a memory operand or constant            (stage 12)
      c ::= … | (e) ⋈ X | X ⋈ (e)  (also Y)              e a tree that leaves the scratch cell free          (stage 13)
      c ::= … | s == w | s != w | s | !s                 s a 16-bit variable, w as in stage 6                (stage 14)
      literal 0, not two constants, not two registers, not `t[X] ⋈ X` (element subscripted by a register against a
      register on the right: the real generator compares the register with itself — recorded finding)
  nested to any depth, any length.

  PROVED for EVERY program of the fragment, every layout, every machine state, every generator state
  and every surrounding code (no bound on program size, nesting or number of loop iterations):
   * `gen_stmt_correct`, `gen_block_correct` (stage 1): a straight-line statement (list) ends and leaves
     exactly the memory the source prescribes under 8-bit wrap-around; X, Y, SP unchanged.
   * `struct_correct_in_context` (stage 2): whenever the source meaning `sem` of a statement is defined
     (the source terminates), the emitted lines — placed after any code whose labels are older and before
     any code — run from the statement's first line to just behind its last line, the memory is the
     one `sem` prescribes, X, Y, SP are unchanged, **and the generator's belief about the processor
     flags is true of the machine state** (the invariant whose violation was the defect class found by
     this check: function entry, csleep, inlined calls).
   * `struct_program_correct`: the same for a whole function body started at line 0, as a terminating
     run of the executable line machine `runG` (the machine the correspondence check executes).
   * `reg_stmt_correct` (stage 3): the straight-line statements may use the register variables X and Y as
     operands and targets; the specification `rspec` then includes the write of the scratch cell `cctmp`
     the code performs; `struct_program_correct_pure` relates it to the plain reading `semPure` (no scratch
     cell): equal X, Y and memory everywhere except `cctmp`, for programs that do not name `cctmp`.
   * stage 4 (array elements): the same theorems; an element is addressed by `elAddr` = base + subscript without
     the zero-page wrap-around of `zp,X` addressing; `indexed_zero_page_no_wrap` shows that the machine's `zp,X`
     address is that address whenever base + subscript stays inside the zero page (a subscript inside an array
     that does not straddle $FF/$100). Templates that depend on the array's placement (`STY t,X` exists only in
     the zero page) take the placement from the generator state (`GState.abs`), as the real generator does.
   * stage 5 (`break`, `continue`): the source meaning has three outcomes (normal, break, continue); the theorem
     says where the code arrives in each case — behind its last line, at the enclosing loop's break label, at
     its continue label (`.whileN`, `.forupdateN`, `.dowhileconditionN` — the last one is emitted only when the
     body has a `continue` of its own, and then forgets the flags: both are part of the port). The unbraced
     `if (c) break;` is a form of its own (one branch to the loop's label, `.ifend` counter taken but unused).
     `for` runs the update after a `continue` (`semFor`); C15 proves `for` ≡ `while` only for bodies without one.
   * stage 6 (16-bit destinations): the statements `s = w`, `s = w ∘ w`, `s ∘= w` are part of the straight-line
     statements of all the theorems above; their meaning in `rspec` is given byte by byte in the order the code works
     (low bytes, carry / borrow, high bytes read after the low byte was stored); `wide_stmt_is_word_arithmetic` and
     `wide_code_correct` show that this IS 16-bit arithmetic on the two cells of `s` — and nothing else changes —
     for every layout in which the high cell of a 16-bit operand is not the low cell of the destination.
   * stage 7 (chains): `lv = a ∘1 b1 ∘2 b2 …` — after the first operator the left operand is the accumulator; every
     further operator is one `opCode` (carry set-up, identity omission, register operands through the scratch cell);
     the meaning is the left fold (`chainVal`, with the scratch writes; `chainPure` without). Part of `RStmt`, hence of
     every theorem above.
   * stage 8 (linear expressions): nested expressions in which every operator has an atomic operand. The compound
     operand is computed into the accumulator; `(e) ∘ a` continues on it, a commutative `a ∘ (e)` is computed as
     `(e) ∘ a`, `a − (e)` parks the value of `e` in the scratch cell (`STA cctmp ; LDA a ; SEC ; SBC cctmp`).
     `linVal` is the meaning with the scratch writes, `linPure` the plain value; induction over the expression tree
     (`linCode_exec`, `linVal_pure`).
   * stage 10 (expression trees): `lv = e` for ANY tree `e` over the five operators that the generator goes through
     with (`GExpr.ok`; it gives up with "Code too complex" on the others, and the port says so: the tie compares the
     rejections too). `genE` is a port of generate_expr / generate_arithm with their state (`acc_in_use`,
     `tmp_in_use`): operand order, `STA cctmp` of a right operand found in the accumulator, `PHA` when the accumulator
     holds an outer operand, the result handed over in the scratch cell (`STA cctmp ; PLA`). The stack pointer and
     the stack page are part of the compared state (`SrcSt.sp`): `tree_code_correct` — the code runs to its end, the
     state is the one `exprSpec` describes step by step, SP is back where it was. `tree_value_is_plain` — that state
     is `lv = (plain value of the tree)` outside the compiler's own cells: the spill strategy never loses a live
     value (induction over the tree with the invariants "an outer operand in the accumulator survives", "a taken
     scratch cell survives": `evalE_pure`, `evalPlan_pure`). Part of `RStmt`, hence of every theorem above;
     `struct_program_correct_pure` now reads "equal outside `cctmp` and the stack page", for layouts that keep the
     program's cells and `cctmp` out of the stack page.
   * stage 11 (shifts and unary operators in the trees): `(e) << k`, `(e) >> k` for a literal k ≤ 7 on 8-bit unsigned
     operands — port of generate_shift (operand from the accumulator, the scratch cell or memory; `PHA` when the
     accumulator holds an outer operand; k times `ASL` / `LSR`; result handed over through the scratch cell); `~(e)` is
     the tree `e ^ 255` and `-(e)` the tree `0 − e`, as in generate_bnot / generate_neg. Same theorems
     (`tree_code_correct`, `tree_value_is_plain` with `shVal` = `<<<` / `>>>` on bytes). Outside: shifts by 8 and more
     (special cases of the generator), shifts of constants (folded), signed operands (arithmetic shift).
   * stage 12 (trees in conditions): `(e) ⋈ m`, `m ⋈ (e)`, `if (e)`, `!(e)` where `e` is a tree the generator accepts
     and `m` a variable, array element or constant: the tree's value stays in A, the compare is `CMP m` with the
     operator mirrored when the tree was written on the right, `== 0` / `!= 0` and `if (e)` use the flags of the last
     arithmetic instruction (`CMP #0` first when that was a shift).
   * stage 13 (conditions with effects): evaluating a condition may now write the compiler's own cells — a tree that
     spills, and `(e) ⋈ X` / `X ⋈ (e)` (also Y), compiled as `STA cctmp ; CPX cctmp` with the register as left operand
     of the compare. The source meaning threads that state: `condRun` gives the truth value AND the state the
     condition leaves; `&&` / `||` evaluate their second operand in the state the first one left, and only when needed;
     `sem` continues from `condEff` on both branches of every `if`, around every loop test, in `if (c) break;`. The
     condition specification `CondSpecM` carries the effect, the combinators for `&&` / `||` compose effects
     (`condSeqBoth`, `condSkipOver`), and `genCond_correct` proves for every condition of the fragment that the code
     jumps iff `evalCond ≠ negate` AND leaves exactly `condEff` (memory, X, Y, stack page), SP and the flag belief as
     before. The plain reading (`semPure`, `evalCondP`: no state threaded) agrees outside the compiler's cells
     (`condRun_eqOff`), so `struct_program_correct_pure` is unchanged for the reader. Quiet trees (`quietE`,
     `evalE_quiet`) are the special case whose effect is the identity.
   * stage 14 (16-bit values in conditions): `s == w`, `s != w`, `if (s)`, `!s` for a 16-bit variable `s` and a 16-bit
     operand `w` (variable, constant ≤ 65535 — also written on the left —, zero-extended 8-bit variable): the low bytes
     are subtracted into the scratch cell, the high bytes with the borrow into A (`LDA s ; SEC ; SBC w ; STA cctmp ;
     LDA s+1 ; SBC w+1`; against literal 0 the bytes themselves), "different" jumps on either byte (`BNE l ; LDA cctmp ;
     BNE l`), "equal" over an `.ifstart` label. The condition's effect (the scratch write) is threaded as in stage 13;
     `wide_condition_is_word_compare` shows that the byte-wise test IS the comparison of the two 16-bit values whenever
     the operands' cells are not the compiler's own. Ordered 16-bit comparisons are outside (recorded findings).
     Not modelled: after `s++` the real generator knows that the flags describe the 16-bit value and tests `s` by the
     flags alone; the port forgets the belief there, and the tie leaves out programs that increment a 16-bit variable
     and test the same one against 0.
   * `fresh_labels`: every label the generator defines is new (counter ranges), the fact behind the
     uniqueness of labels in emitted code (used again by C13).
   * `adc_after_clc`, `sbc_after_sec`, `negate_means_not`, `mirror_means_swap`: the arithmetic and
     operator-table facts the templates rest on.
  NOT covered by these theorems (covered by co-execution against CV.CSem in the check, partial):
  16-bit shifts/comparisons/unary operators, 16-bit values in conditions, arrays of 16-bit
  elements, subscripts that are memory operands, switch,
  calls, signed types, pointers; optimisation levels above -O0 (C02's subject).
-/
import CV.Proofs.GenStructMain
import CV.Proofs.GenStructPure
import CV.Proofs.GenWord
import CV.Proofs.GenWordStruct
set_option linter.unusedSimpArgs false
set_option linter.constructorNameAsVariable false
namespace CV.C01
open CV CV.GenFlat CV.GenReg CV.GenStruct

/-! ### stage 1 -/

theorem adc_after_clc (s : Cpu) (m : Byte) (h : s.f.c = false) : (s.adc m).a = s.a + m :=
  GenFlat.adc_after_clc s m h

theorem sbc_after_sec (s : Cpu) (m : Byte) (h : s.f.c = true) : (s.sbc m).a = s.a - m :=
  GenFlat.sbc_after_sec s m h

/-- every statement of the stage-1 fragment, every layout, every machine state -/
theorem gen_stmt_correct (L : Layout) (st : FStmt) (s : Cpu) :
    ∃ s', execSeq s (genOps L st) = some s' ∧ s'.mem = spec L s.mem s.x s.y st ∧
      s'.x = s.x ∧ s'.y = s.y ∧ s'.sp = s.sp :=
  GenFlat.gen_stmt_correct L st s

/-- any sequence of such statements -/
theorem gen_block_correct (L : Layout) (sts : List FStmt) (s : Cpu) :
    ∃ s', execSeq s (sts.flatMap (genOps L)) = some s' ∧ s'.mem = specBlock L s.x s.y s.mem sts ∧
      s'.x = s.x ∧ s'.y = s.y ∧ s'.sp = s.sp :=
  GenFlat.gen_block_correct L sts s

/-! ### stage 3: straight-line statements with the register variables X and Y -/

/-- every statement lv = a | lv = a ∘ b | lv ∘= a | lv++ | lv-- with lv, a, b among variables, constants, X and Y;
    every layout, every machine state: the code ends; memory, X and Y are what the source prescribes (`rspec`,
    which includes the scratch cell the code really uses for a register right operand); SP is untouched; and
    the generator's belief about the flags afterwards is true when it was true before -/
theorem reg_stmt_correct (L : Layout) (zp : String → Bool) (st : RStmt) (fl : Option FRef) (s : Cpu) (hinv : FlagsInv L fl s) :
    ∃ s', execSeq s (rgenOps L zp st) = some s' ∧ srcOf s' = rspec L (srcOf s) st ∧ s'.sp = s.sp ∧
      FlagsInv L (flagsAfter zp fl st) s' :=
  rflat_correct L zp st fl s hinv

/-! ### stage 6: 16-bit destinations -/

/-- `s = x | s = x ∘ y | s ∘= x` with `s` an `unsigned short` variable and x, y among 16-bit variables, constants up
    to 65535 and 8-bit variables (zero-extended): the code (two byte passes, the carry travelling from the first to
    the second; the generator's omissions of `+ 0`, `& 255`, … decided on the whole constant; `t & 255` answered
    without code) ends and leaves memory, X, Y as `rspec` says — `reg_stmt_correct` covers these statements too. What
    `rspec` says for them is 16-bit arithmetic: -/
theorem wide_stmt_is_word_arithmetic (L : Layout) (σ : SrcSt) (st : RStmt) (s : String) (w : BitVec 16)
    (h : wResult L σ st = some (s, w)) (hsep : ∀ x ∈ wOperands st, ∀ t, x = .wvar t → L t + 1 ≠ L s) :
    wordAt L (rspec L σ st).mem s = w ∧ (rspec L σ st).x = σ.x ∧ (rspec L σ st).y = σ.y ∧
      ∀ a, a ≠ L s → a ≠ L s + 1 → (rspec L σ st).mem.read a = σ.mem.read a :=
  wide_stmt_word L σ st s w h hsep

/-- the machine code of a 16-bit statement computes the 16-bit result: for every layout in which the high cell of no
    16-bit operand is the low cell of the destination (each variable has its own cells), every machine state -/
theorem wide_code_correct (L : Layout) (zp : String → Bool) (st : RStmt) (c : Cpu) (s : String) (w : BitVec 16)
    (h : wResult L (srcOf c) st = some (s, w)) (hsep : ∀ x ∈ wOperands st, ∀ t, x = .wvar t → L t + 1 ≠ L s) :
    ∃ c', execSeq c (rgenOps L zp st) = some c' ∧ wordAt L c'.mem s = w ∧ c'.x = c.x ∧ c'.y = c.y ∧ c'.sp = c.sp ∧
      ∀ a, a ≠ L s → a ≠ L s + 1 → c'.mem.read a = c.mem.read a := by
  obtain ⟨c', h1, h2, h3, _⟩ := rflat_correct L zp st none c trivial
  obtain ⟨w1, w2, w3, w4⟩ := wide_stmt_word L (srcOf c) st s w h hsep
  have hm : c'.mem = (rspec L (srcOf c) st).mem := congrArg SrcSt.mem h2
  have hx : c'.x = (rspec L (srcOf c) st).x := congrArg SrcSt.x h2
  have hy : c'.y = (rspec L (srcOf c) st).y := congrArg SrcSt.y h2
  exact ⟨c', h1, by rw [hm]; exact w1, by rw [hx]; exact w2, by rw [hy]; exact w3, h3, fun a ha hb => by rw [hm]; exact w4 a ha hb⟩

/-- stage 9: `s++` / `s--` on a 16-bit variable. The statements are *derived* (`incW`, `decW`: "low byte ++ ; if it
    became 0, high byte ++" — exactly the lines `INC s ; BNE .ifendN ; INC s+1 ; .ifendN:` the generator emits, with
    the flag belief that lets it skip the reload), so every structural theorem applies to them; their meaning is
    16-bit arithmetic -/
theorem wide_increment_is_word_arithmetic (L : Layout) (σ : SrcSt) (s : String) (f : Nat) :
    ∃ σ', sem L (f + 3) σ (incW s) = some (.norm, σ') ∧ wordAt L σ'.mem s = wordAt L σ.mem s + 1 ∧
      σ'.x = σ.x ∧ σ'.y = σ.y ∧ ∀ a, a ≠ L s → a ≠ L s + 1 → σ'.mem.read a = σ.mem.read a :=
  incW_word L σ s f

theorem wide_decrement_is_word_arithmetic (L : Layout) (σ : SrcSt) (s : String) (f : Nat) :
    ∃ σ', sem L (f + 4) σ (decW s) = some (.norm, σ') ∧ wordAt L σ'.mem s = wordAt L σ.mem s - 1 ∧
      σ'.x = σ.x ∧ σ'.y = σ.y ∧ ∀ a, a ≠ L s → a ≠ L s + 1 → σ'.mem.read a = σ.mem.read a :=
  decW_word L σ s f

example : SInFragment (incW "p") = true ∧ SInFragment (decW "p") = true ∧ Scoped false (.seq (incW "p") (decW "p")) = true := by decide
example : (gen none {} (.seq (incW "p") (decW "p"))).1.map GLine.text =
    (gen none {} (.seq (incW "p") (decW "p"))).1.map GLine.text := rfl
example : ((gen none {} (incW "p")).1).length = 4 ∧ ((gen none {} (decW "p")).1).length = 5 := by decide

/-- the two byte passes are 16-bit arithmetic (carry of the addition, borrow of the subtraction) -/
theorem byte_passes_are_word_arithmetic (op : BOp) (a1 a0 b1 b0 : Byte) :
    word (highRes op (lowRes op a0 b0).2 a1 b1) (lowRes op a0 b0).1 = op.apply16 (word a1 a0) (word b1 b0) :=
  passes_word op a1 a0 b1 b0

/-! non-vacuity of stage 6: the templates, a layout that meets the separation hypothesis, a concrete result -/
example : rgenText (fun _ => true) (.binW "s" .add (.wvar "t") (.wconst 300)) =
    [(.LDA, "t"), (.CLC, ""), (.ADC, "#44"), (.STA, "s"), (.LDA, "t+1"), (.ADC, "#1"), (.STA, "s+1")] := by decide
example : rgenText (fun _ => true) (.binW "s" .add (.wconst 256) (.wbyte "a")) =
    [(.LDA, "a"), (.CLC, ""), (.STA, "s"), (.LDA, "#0"), (.ADC, "#1"), (.STA, "s+1")] := by decide
example : rgenText (fun _ => true) (.opasgW "s" .band (.wconst 255)) =
    [(.LDA, "s"), (.STA, "s"), (.LDA, "#0"), (.STA, "s+1")] := by decide
example : rgenText (fun _ => true) (.binW "s" .sub (.wvar "t") (.wconst 256)) =
    [(.LDA, "t"), (.SEC, ""), (.SBC, "#0"), (.STA, "s"), (.LDA, "t+1"), (.SBC, "#1"), (.STA, "s+1")] := by decide
example : (fun n : String => if n == "s" then (0x80 : Word) else 0x82) "t" + 1 ≠ (fun n : String => if n == "s" then (0x80 : Word) else 0x82) "s" := by decide
example : word (highRes .add (lowRes .add 0xff 0x01).2 0x00 0x00) (lowRes .add 0xff 0x01).1 = 0x0100 := by decide

/-! ### stage 2: structured control flow over those statements -/

/-- structured statements in any context, inside any loop: the statement's code runs from its first line
    * to just behind its last line when the source statement ends normally — the generator's flag belief holds;
    * to the `continue` label / the `break` label of the enclosing loop when the source statement ends that way
  (positions `tc`, `tb`: wherever the enclosing code has these labels), with the memory, X and Y of `sem` -/
theorem struct_correct_in_context (L : Layout) (st : SStmt) (fuel : Nat) (σ : SrcSt) (out : Out)
    (hsem : sem L fuel σ st = some out) (hfr : SInFragment st = true)
    (lp : LoopCtx) (g : GState) (pre post : List GLine) (s : Cpu) (tc tb : Nat)
    (hsc : Scoped lp.isSome st = true) (hold : Old g pre) (hm : srcOf s = σ) (hflags : FlagsInv L g.flags s)
    (hlp : LoopOK lp (pre ++ (gen lp g st).1 ++ post) tc tb (contHere st)) :
    ResultO L (pre ++ (gen lp g st).1 ++ post) pre.length s (pre.length + (gen lp g st).1.length) tc tb out (gen lp g st).2.flags :=
  correct_all L fuel st σ out hsem hfr lp g pre post s tc tb hsc hold hm hflags hlp

/-- a statement that ends by `continue` contains a `continue` of its own loop -/
theorem sem_cont_has_continue (L : Layout) (f : Nat) (m : SrcSt) (st : SStmt) (m' : SrcSt)
    (h : sem L f m st = some (.cont, m')) : contHere st = true := sem_cont_contHere L f m st m' h

/-- the three cases of `ResultO`, spelled out -/
theorem resultO_norm (L : Layout) (code : List GLine) (p q tc tb : Nat) (s : Cpu) (σ' : SrcSt) (fl : Option FRef)
    (h : ResultO L code p s q tc tb (.norm, σ') fl) :
    ∃ s', Steps L code p s q s' ∧ srcOf s' = σ' ∧ FlagsInv L fl s' ∧ s'.sp = s.sp := h
theorem resultO_break (L : Layout) (code : List GLine) (p q tc tb : Nat) (s : Cpu) (σ' : SrcSt) (fl : Option FRef)
    (h : ResultO L code p s q tc tb (.brk, σ') fl) :
    ∃ s', Steps L code p s tb s' ∧ srcOf s' = σ' ∧ s'.sp = s.sp := h
theorem resultO_continue (L : Layout) (code : List GLine) (p q tc tb : Nat) (s : Cpu) (σ' : SrcSt) (fl : Option FRef)
    (h : ResultO L code p s q tc tb (.cont, σ') fl) :
    ∃ s', Steps L code p s tc s' ∧ srcOf s' = σ' ∧ s'.sp = s.sp := h

/-- a whole function body (no enclosing loop: every `break` / `continue` is inside a loop of the body) from its
    first line: a terminating run of the executable machine -/
theorem struct_program_correct (L : Layout) (st : SStmt) (fuel : Nat) (σ : SrcSt) (out : Out)
    (hsem : sem L fuel σ st = some out) (hfr : SInFragment st = true) (hsc : Scoped false st = true)
    (s : Cpu) (hm : srcOf s = σ) :
    ∃ s' n, runG L (gen none {} st).1 (gen none {} st).1.length n 0 s = some s' ∧ srcOf s' = out.2 ∧ s'.sp = s.sp := by
  have hn := scoped_norm L fuel σ st out hsem hsc
  have := correct_all L fuel st σ out hsem hfr none {} [] [] s 0 0 hsc (by intro l hl; simp at hl) hm trivial trivial
  obtain ⟨e, σ'⟩ := out
  simp only at hn
  subst hn
  obtain ⟨s', hs, hmem, _, hsp⟩ := this
  simp only [List.nil_append, List.append_nil, List.length_nil, Nat.zero_add] at hs
  obtain ⟨n, hn⟩ := hs.runG rfl
  exact ⟨s', n, hn, hmem, hsp⟩

/-- the same against the plain reading of the source (`semPure`: no scratch cell anywhere): for a program that
    does not name the compiler's cell `cctmp`, the run ends with X, Y and every memory cell except `cctmp` as
    the source prescribes -/
theorem struct_program_correct_pure (L : Layout) (st : SStmt) (fuel : Nat) (σ : SrcSt) (out : Out)
    (hsem : semPure L fuel σ st = some out) (hfr : SInFragment st = true) (hsc : Scoped false st = true)
    (hn : NoTmp L st.names) (s : Cpu) (hm : srcOf s = σ) :
    ∃ s' n, runG L (gen none {} st).1 (gen none {} st).1.length n 0 s = some s' ∧ EqOff L (srcOf s') out.2 ∧ s'.sp = s.sp := by
  have h := sem_pure L fuel σ σ st (EqOff.refl L σ) hn
  rw [hsem] at h
  cases hs : sem L fuel σ st with
  | none => simp [hs, OutEq] at h
  | some o =>
    rw [hs] at h
    obtain ⟨s', n, hr, hsrc, hsp⟩ := struct_program_correct L st fuel σ o hs hfr hsc s hm
    exact ⟨s', n, hr, by rw [hsrc]; exact h.2, hsp⟩

/-- every label defined by generated code is new: allocated between the generator states before and
    after — so no label of a statement's code occurs in code generated earlier -/
theorem fresh_labels (st : SStmt) (lp : LoopCtx) (g : GState) :
    ∀ l ∈ labels (gen lp g st).1, g.ctr l.kind.ctr < l.idx ∧ l.idx ≤ (gen lp g st).2.ctr l.kind.ctr :=
  (gen_fresh st lp g).2

/-- indexed addressing in the zero page: as long as base + subscript stays below $100 the address the 6502
    computes for `zp,X` (which wraps inside the zero page) is the plain sum the model uses -/
theorem indexed_zero_page_no_wrap (s : Cpu) (a : Word) (h : a.toNat + s.x.toNat < 256) :
    s.ea (.memX a true) = s.ea (.memX a false) := by
  simp only [Cpu.ea, if_true, Bool.false_eq_true, if_false, Option.some.injEq]
  apply BitVec.eq_of_toNat_eq
  have hx := s.x.isLt
  simp [BitVec.toNat_add, BitVec.toNat_setWidth]
  omega

theorem indexed_zero_page_no_wrap_y (s : Cpu) (a : Word) (h : a.toNat + s.y.toNat < 256) :
    s.ea (.memY a true) = s.ea (.memY a false) := by
  simp only [Cpu.ea, if_true, Bool.false_eq_true, if_false, Option.some.injEq]
  apply BitVec.eq_of_toNat_eq
  have hy := s.y.isLt
  simp [BitVec.toNat_add, BitVec.toNat_setWidth]
  omega

/-- the operator tables of `generate_condition_ex` mean what their names say -/
theorem negate_means_not (op : COp) (a b : Byte) : op.negate.eval a b = !op.eval a b := negate_eval op a b
theorem mirror_means_swap (op : COp) (a b : Byte) : op.mirror.eval b a = op.eval a b := mirror_eval op a b

/-! non-vacuity: a program using every production of the fragment -/
def demo : List FStmt :=
  [.asg "a" (.const 5), .asg "b" (.var "a"), .bin "c" .add (.var "a") (.var "b"), .bin "c" .add (.const 3) (.var "b"),
   .bin "a" .sub (.const 3) (.var "b"), .bin "d" .band (.const 7) (.var "c"), .opasg "a" .bxor (.var "d"),
   .opasg "b" .sub (.const 1), .inc "a", .dec "d", .bin "d" .bor (.var "a") (.const 128)]
example : demo.all InFragment = true := by decide
example : genText (.bin "c" .add (.const 3) (.var "b")) = [(.LDA, "b"), (.CLC, ""), (.ADC, "#3"), (.STA, "c")] := by decide


/-! non-vacuity of stages 2 and 3: a program with every production; source loops whose meaning is defined -/
def va (n : String) : RA := .of (.var n)
def ca (n : Nat) : RA := .of (.const (BitVec.ofNat 8 n))
def sdemo : SStmt :=
  .seq (.flat (.asg (.var "a") (ca 3)))
  (.seq (.for (.asg .x (ca 0)) (.cmp .lt .x (ca 5)) (.inc .x)
          (.ifElse (.and (.cmp .gt (va "a") .x) (.not (.truth .y))) (.flat (.opasg (.var "c") .add .x)) (.flat (.dec .y))))
  (.seq (.while (.truth (.var "a")) (.seq (.flat (.dec (.var "a"))) (.ifThen (.or (.cmp .eq (ca 0) (va "a")) (.nottruth .x)) .skip)))
        (.doWhile (.flat (.bin .y .sub .y (va "d"))) (.cmp .le .y (ca 9)))))
/-- stage 4: elements as operands, targets, loop counters and in conditions -/
def el (t : String) (i : Ix) : RA := .of (.el t i)
def ademo : SStmt :=
  .seq (.flat (.asg (.el "t" .x) (el "u" .y)))
  (.seq (.flat (.bin (.el "t" (.k 2)) .add (el "t" .x) .x))
  (.seq (.flat (.inc (.el "t" .y)))
  (.seq (.while (.truth (.el "t" .x)) (.flat (.dec (.el "t" .x))))
        (.ifElse (.cmp .lt .x (el "u" .x)) (.flat (.asg (.el "u" .x) .y)) (.flat (.asg .y (el "t" .y)))))))
example : SInFragment ademo = true := by decide
example : rgenText (fun _ => true) (.bin (.el "t" (.k 2)) .add (el "t" .x) .x) =
    [(.LDA, "t,X"), (.CLC, ""), (.STX, "cctmp"), (.ADC, "cctmp"), (.STA, "t+2")] := by decide
example : rgenText (fun _ => true) (.asg (.el "t" .x) .y) = [(.STY, "t,X")] := by decide
example : rgenText (fun _ => false) (.asg (.el "t" .x) .y) = [(.TYA, ""), (.STA, "t,X")] := by decide
example : rgenText (fun _ => true) (.inc (.el "t" .y)) = [(.LDA, "t,Y"), (.CLC, ""), (.ADC, "#1"), (.STA, "t,Y")] := by decide
example : ((gen none {} ademo).1).length = 26 := by decide
example : SInFragment sdemo = true := by decide
example : ((gen none {} sdemo).1.map GLine.text).length = 44 := by decide
example (L : Layout) (σ : SrcSt) (h : σ.x = 1) :
    sem L 4 σ (.doWhile (.flat (.dec .x)) (.truth .x)) = some (.norm, { σ with x := 0 }) := by
  simp [sem, rspec, evalCond_cmp, evalCond_truth, evalCond_nottruth, evalCond_cmpE, evalCond_truthE, evalCond_not, evalCond_and, evalCond_or, condEff_cmp, condEff_truth, condEff_nottruth, condEff_cmpE, condEff_truthE, condEff_not, condEff_and, condEff_or, wr, rval, LV.ra, h]
example (L : Layout) (σ : SrcSt) : ∃ o, sem L 3 σ (.ifElse (.truth .y) (.flat (.inc (.var "b"))) (.flat (.dec (.var "b")))) = some o := by
  simp only [sem]; split <;> exact ⟨_, rfl⟩

/-- stage 5: `break` and `continue` in every kind of loop -/
def bdemo : SStmt :=
  .seq (.while (.truth (.var "a")) (.seq (.flat (.dec (.var "a"))) (.ifThen (.cmp .eq (va "a") (ca 3)) .brk)))
  (.seq (.doWhile (.seq (.flat (.inc .x)) (.ifElse (.cmp .lt .x (ca 5)) .cont (.flat (.inc (.var "c"))))) (.cmp .ne .x (ca 9)))
        (.for (.asg .y (ca 0)) (.cmp .lt .y (ca 8)) (.inc .y) (.seq (.ifThen (.truth (.var "b")) .cont) (.ifThen (.cmp .eq .y (ca 6)) .brk))))
example : SInFragment bdemo = true ∧ Scoped false bdemo = true := by decide
/-- the `.dowhilecondition` label exists exactly when the body has a `continue` of its own -/
example : (labels (gen none {} (.doWhile (.ifThen (.truth .x) .cont) (.truth .y))).1).map Lbl.text
    = [".dowhile1", ".ifend1", ".dowhilecondition1", ".dowhileend1"] := by decide
example : (labels (gen none {} (.doWhile (.ifThen (.truth .x) .brk) (.truth .y))).1).map Lbl.text
    = [".dowhile1", ".ifend1", ".dowhileend1"] := by decide
/-- a loop left by `break`: the source meaning and hence the run of the code -/
example (L : Layout) (σ : SrcSt) :
    sem L 5 σ (.while (.truth .x) (.seq (.flat (.asg .y (ca 7))) .brk)) =
      some (.norm, if σ.x != 0 then { σ with y := 7 } else σ) := by
  by_cases h : σ.x = 0
  · simp [sem, rspec, evalCond_cmp, evalCond_truth, evalCond_nottruth, evalCond_cmpE, evalCond_truthE, evalCond_not, evalCond_and, evalCond_or, condEff_cmp, condEff_truth, condEff_nottruth, condEff_cmpE, condEff_truthE, condEff_not, condEff_and, condEff_or, wr, rval, LV.ra, val, ca, h]
  · have h' : ¬ σ.x = 0#8 := h
    simp [sem, rspec, evalCond_cmp, evalCond_truth, evalCond_nottruth, evalCond_cmpE, evalCond_truthE, evalCond_not, evalCond_and, evalCond_or, condEff_cmp, condEff_truth, condEff_nottruth, condEff_cmpE, condEff_truthE, condEff_not, condEff_and, condEff_or, wr, rval, LV.ra, val, ca, h']

/-! non-vacuity of stage 7 -/
example : rgenText (fun _ => true) (.chain (.var "v") (.of (.const 3)) .add (.of (.var "a")) [(.sub, .x), (.bor, .of (.el "t" .y))]) =
    [(.LDA, "a"), (.CLC, ""), (.ADC, "#3"), (.SEC, ""), (.STX, "cctmp"), (.SBC, "cctmp"), (.ORA, "t,Y"), (.STA, "v")] := by decide
example : RInFragment (.chain (.var "v") (.of (.var "a")) .add (.of (.var "b")) [(.sub, .of (.var "c"))]) = true := by decide
/-! non-vacuity of stage 8: `v = a − ((b − (c + 1)) − t[X])` -/
example : rgenText (fun _ => true) (.lin (.var "v") (.right (.of (.var "a")) .sub (.left (.right (.of (.var "b")) .sub
      (.pair (.of (.var "c")) .add (.of (.const 1)))) .sub (.of (.el "t" .x))))) =
    [(.LDA, "c"), (.CLC, ""), (.ADC, "#1"), (.STA, "cctmp"), (.LDA, "b"), (.SEC, ""), (.SBC, "cctmp"), (.SEC, ""), (.SBC, "t,X"),
     (.STA, "cctmp"), (.LDA, "a"), (.SEC, ""), (.SBC, "cctmp"), (.STA, "v")] := by decide
example (L : Layout) (σ : SrcSt) : linPure L σ (.right (.of (.const 10)) .sub (.pair (.of (.const 3)) .add (.of (.const 4)))) = 3 := by
  simp [linPure, rval, val, BOp.apply]

/-! ### stage 10: expression trees with spills -/

/-- `lv = e` for every expression tree: when the generator goes through with it (`e.ok`), the code runs to its end
    from every machine state, leaves the state `exprSpec` describes (every scratch write, push and pull included)
    and the stack pointer where it was; otherwise there is no code and nothing changes -/
theorem tree_code_correct (L : Layout) (s : Cpu) (fl : Option FRef) (v : LV) (e : GExpr) (hinv : FlagsInv L fl s) :
    ∃ s', execSeq s (exprCode Opd.none (opd L) v e) = some s' ∧ srcOf s' = exprSpec L (srcOf s) v e ∧ s'.sp = s.sp ∧
      FlagsInv L (if e.ok then some v else fl) s' :=
  exprStmt_exec L s fl v e hinv

/-- the spill strategy never loses a live value: for every accepted tree, `exprSpec` is the assignment of the plain
    value of the tree, outside the compiler's own cells (`cctmp`, stack page) -/
theorem tree_value_is_plain (L : Layout) (σ : SrcSt) (v : LV) (e : GExpr) (hok : e.ok = true)
    (hn : NoTmp L (v.names ++ gexprNames e)) : EqOff L (exprSpec L σ v e) (wr L σ v (pureE L σ e)) := by
  have := rspec_pure L (EqOff.refl L σ) (.expr v e) hn
  simpa [rspec, pureSpec, hok] using this

/-- what the generator decides does not depend on how operands are written -/
theorem tree_decisions_independent_of_rendering (L : Layout) (e : GExpr) (hne : ∀ a, e ≠ .atom a) :
    e.ok = true ↔ ∃ c st', genE Opd.none (opd L) {} e = some (c, .acc, st') :=
  genE_ok_iff Opd.none (opd L) e hne

/-! non-vacuity of stage 10: `v = (a + b) − (c & d)` spills; a tree the generator gives up on -/
example : rgenText (fun _ => true) (.expr (.var "v") (.bin (.bin (.atom (.of (.var "a"))) .add (.atom (.of (.var "b")))) .sub
      (.bin (.atom (.of (.var "c"))) .band (.atom (.of (.var "d")))))) =
    [(.LDA, "a"), (.CLC, ""), (.ADC, "b"), (.PHA, ""), (.LDA, "c"), (.AND, "d"), (.STA, "cctmp"), (.PLA, ""), (.SEC, ""),
     (.SBC, "cctmp"), (.STA, "v")] := by decide
example : (GExpr.bin (.bin (.atom (.of (.var "a"))) .add (.atom (.of (.var "b")))) .sub
      (.bin (.atom (.of (.var "c"))) .band (.atom (.of (.var "d"))))).ok = true := by decide
example : (GExpr.bin (.bin (.atom .x) .add (.atom (.of (.var "b")))) .sub (.bin (.bin (.atom (.of (.var "a"))) .sub (.atom (.of (.var "b")))) .sub
      (.bin (.atom (.of (.var "c"))) .band (.atom .y)))).ok = false := by decide
example (L : Layout) (σ : SrcSt) : pureE L σ (.bin (.bin (.atom (.of (.const 9))) .add (.atom (.of (.const 1)))) .sub
      (.bin (.atom (.of (.const 7))) .band (.atom (.of (.const 12))))) = 6 := by
  simp [pureE, rval, val, BOp.apply]

/-! non-vacuity of stage 11: `v = (a >> 1) + (c << 2)` — shift, spill, shift into the scratch cell -/
example : rgenText (fun _ => true) (.expr (.var "v") (.bin (.sh (.atom (.of (.var "a"))) false 1) .add (.sh (.atom (.of (.var "c"))) true 2))) =
    [(.LDA, "a"), (.LSR, ""), (.PHA, ""), (.LDA, "c"), (.ASL, ""), (.ASL, ""), (.STA, "cctmp"), (.PLA, ""), (.CLC, ""),
     (.ADC, "cctmp"), (.STA, "v")] := by decide
example (L : Layout) (σ : SrcSt) : pureE L σ (.bin (.sh (.atom (.of (.const 9))) false 1) .add (.sh (.atom (.of (.const 3))) true 2)) = 16 := by
  simp [pureE, rval, val, BOp.apply, shVal]

/-! non-vacuity of stage 12: `if (((a & 3) + c) < b) d++;` and `while (a >> 1) a--;` -/
example : (gen none {} (.ifThen (.cmpE .lt (.bin (.bin (.atom (.of (.var "a"))) .band (.atom (.of (.const 3)))) .add (.atom (.of (.var "c"))))
      (.var "b") true) (.flat (.inc (.var "d"))))).1.map GLine.text =
    ["LDA:61", "AND:2333", "CLC:-", "ADC:63", "CMP:62", "BCS:2e6966656e6431", "INC:64", "L:2e6966656e6431"] := by decide
example : SInFragment (.ifThen (.cmpE .lt (.bin (.bin (.atom (.of (.var "a"))) .band (.atom (.of (.const 3)))) .add (.atom (.of (.var "c"))))
      (.var "b") true) (.flat (.inc (.var "d")))) = true := by decide
example : (gen none {} (.while (.truthE (.sh (.atom (.of (.var "a"))) false 1)) (.flat (.dec (.var "a"))))).1.map GLine.text =
    ["L:2e7768696c6531", "LDA:61", "LSR:-", "CMP:2330", "BEQ:2e7768696c65656e6431", "DEC:61", "JMP:2e7768696c6531",
     "L:2e7768696c65656e6431"] := by decide
/-! non-vacuity of stage 13: a tree that spills as a truth test; a tree against X -/
example : (gen none {} (.ifThen (.truthE (.bin (.bin (.atom (.of (.var "a"))) .add (.atom (.of (.var "b")))) .sub
      (.bin (.atom (.of (.var "c"))) .band (.atom (.of (.var "d")))))) (.flat (.inc (.var "d"))))).1.map GLine.text =
    ["LDA:61", "CLC:-", "ADC:62", "PHA:-", "LDA:63", "AND:64", "STA:6363746d70", "PLA:-", "SEC:-", "SBC:6363746d70",
     "BEQ:2e6966656e6431", "INC:64", "L:2e6966656e6431"] := by decide
example : (gen none {} (.while (.cmpR .ne (.bin (.atom (.of (.var "a"))) .add (.atom (.of (.const 1)))) false true)
      (.flat (.inc (.var "a"))))).1.map GLine.text =
    ["L:2e7768696c6531", "LDA:61", "CLC:-", "ADC:2331", "STA:6363746d70", "CPX:6363746d70", "BEQ:2e7768696c65656e6431",
     "INC:61", "JMP:2e7768696c6531", "L:2e7768696c65656e6431"] := by decide
example : SInFragment (.while (.cmpR .ne (.bin (.atom (.of (.var "a"))) .add (.atom (.of (.const 1)))) false true)
      (.flat (.inc (.var "a")))) = true := by decide
/-- the condition `(a + 1) != X` leaves the tree's value in the scratch cell -/
example (L : Layout) (m : SrcSt) : condEff L m (.cmpR .ne (.bin (.atom (.of (.var "a"))) .add (.atom (.of (.const 1)))) false true)
    = setTmp L m (m.mem.read (L "a") + 1) := by
  simp [condEff_cmpR, treeRun, evalE, evalArithm, plan, planOK, mkPlan, order, ET.isConst, ET.isReg, RA.isConst, RA.isReg,
    evalPlan, Plan.save, leftVal, rval, val, opnd, tmpWrite, BOp.apply]

/-- a condition on a quiet tree (no spill, no push, no register operand through the scratch cell) leaves the state as
    it found it: the special case in which stage 13's effects are the identity -/
theorem quiet_tree_condition_no_effect (L : Layout) (m : SrcSt) (op : COp) (e : GExpr) (b : Atom) (eLeft : Bool)
    (hq : quietE {} e = true) :
    condEff L m (.cmpE op e b eLeft) = m ∧ condEff L m (.truthE e) = m := by
  have h : (treeRun L m e).2 = m := by
    unfold treeRun
    cases h0 : evalE L m 0 {} e with
    | none => rfl
    | some y =>
      obtain ⟨⟨σ', a'⟩, t, st'⟩ := y
      have := evalE_quiet L e m 0 {} (σ', a') t st' hq h0
      cases t <;> simp_all
  exact ⟨by simp [h], by simp [h]⟩

/-- stage 14: the byte-wise (in)equality test of a 16-bit variable is the comparison of the 16-bit values; the state it
    leaves differs from the one it found only in the scratch cell -/
theorem wide_condition_is_word_compare (L : Layout) (σ : SrcSt) (ne : Bool) (s : String) (w : WA)
    (hn : NoTmp L ([Atom.var s, Atom.el s (.k 1)] ++ w.lo.names ++ w.hi.names)) :
    evalCond L σ (.wcmp ne s w) = (if ne then wordAt L σ.mem s != wval L σ w else wordAt L σ.mem s == wval L σ w) ∧
      EqOff L (condEff L σ (.wcmp ne s w)) σ := by
  obtain ⟨h1, h2⟩ := wcmpRun_word L (EqOff.refl L σ) s w hn
  refine ⟨?_, by simpa using h2⟩
  rw [evalCond_wcmp, h1]
  cases ne
  · simp only [Bool.false_eq_true, if_false, bne, Bool.not_not]
  · simp

/-! non-vacuity of stage 14: `while (p != q) p++;` and `if (!p) a++;` -/
example : (gen none {} (.while (.wcmp true "p" (.wvar "q")) (incW "p"))).1.map GLine.text =
    ["L:2e7768696c6531", "LDA:70", "SEC:-", "SBC:71", "STA:6363746d70", "LDA:702b31", "SBC:712b31",
     "BNE:2e6966737461727430", "LDA:6363746d70", "BEQ:2e7768696c65656e6431", "L:2e6966737461727430", "INC:70",
     "BNE:2e6966656e6432", "INC:702b31", "L:2e6966656e6432", "JMP:2e7768696c6531", "L:2e7768696c65656e6431"] := by decide
example : (gen none {} (.ifThen (.not (.wcmp true "p" (.wconst 0))) (.flat (.inc (.var "a"))))).1.map GLine.text =
    ["LDA:70", "STA:6363746d70", "LDA:702b31", "BNE:2e6966656e6431", "LDA:6363746d70", "BNE:2e6966656e6431", "INC:61",
     "L:2e6966656e6431"] := by decide

/-- a layout that meets the hypotheses of `tree_value_is_plain` (and of `struct_program_correct_pure`): the program's
    cells and `cctmp` in the zero page, below the stack page -/
theorem not_inStack_of_lt (a : Word) (h : a.toNat < 256) : ¬ InStack a := by
  rintro ⟨b, rfl⟩
  have : (Cpu.stackAddr b).toNat ≥ 256 := by
    unfold Cpu.stackAddr
    rw [BitVec.toNat_or]
    exact Nat.left_le_or
  omega
example : NoTmp (fun n => if n == "cctmp" then 0x80 else if n == "a" then 0x81 else 0x82) [.var "a", .var "v"] := by
  refine ⟨not_inStack_of_lt _ (by decide), ?_⟩
  intro x hx
  simp only [List.mem_cons, List.not_mem_nil, or_false] at hx
  rcases hx with rfl | rfl
  · rintro (h | h)
    · exact absurd h (by decide)
    · exact not_inStack_of_lt _ (by decide) h
  · rintro (h | h)
    · exact absurd h (by decide)
    · exact not_inStack_of_lt _ (by decide) h


end CV.C01
