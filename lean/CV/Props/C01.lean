/-
  Property C01 — emitted 6502 code computes what the C source says.
  Models: CV.GenFlat (port of the generator for the declared fragment, stage 1), CV.Mos (6502
  semantics), CV.CSem (the C reading used by the co-execution search).

  Proved, for EVERY statement of the fragment, every memory layout and every machine state
  (no bound on program length):
   * `gen_stmt_correct`  : executing the code the generator emits for a statement ends, and the
     memory is exactly what the source prescribes under 8-bit wrap-around; X, Y and SP unchanged
   * `gen_block_correct` : the same for any sequence of such statements (induction on the list)
   * `adc_after_clc`, `sbc_after_sec` : the arithmetic facts the templates rest on
  The fragment (`InFragment`): v = a | v = a ∘ b | v ∘= a | v++ | v-- over global unsigned chars in
  zero page and constants, ∘ ∈ {+, −, &, |, ^}. Everything outside it (nested expressions, 16-bit
  values, arrays, X/Y, conditions, loops, switch, calls) is NOT covered by these theorems; it is
  covered by the co-execution of generated programs against CV.CSem in the check (partial).
-/
import CV.GenFlat
set_option linter.unusedSimpArgs false
namespace CV.C01
open CV CV.GenFlat

theorem adc_after_clc (s : Cpu) (m : Byte) (h : s.f.c = false) : (s.adc m).a = s.a + m := by
  simp [Cpu.adc, h]
  apply BitVec.eq_of_toNat_eq
  simp [BitVec.toNat_add]

theorem sbc_after_sec (s : Cpu) (m : Byte) (h : s.f.c = true) : (s.sbc m).a = s.a - m := by
  simp [Cpu.sbc, Cpu.adc, h]
  apply BitVec.eq_of_toNat_eq
  simp [BitVec.toNat_add, BitVec.toNat_sub, BitVec.toNat_not]
  omega

theorem adc_frame (s : Cpu) (m : Byte) : (s.adc m).mem = s.mem ∧ (s.adc m).x = s.x ∧ (s.adc m).y = s.y ∧ (s.adc m).sp = s.sp := by
  simp [Cpu.adc]

/-- reading an atom through its operand gives its value -/
theorem rd_opd (L : Layout) (s : Cpu) (a : Atom) : s.rd (opd L a) = some (val L s.mem a) := by
  cases a <;> simp [opd, val, Cpu.rd, Cpu.ea]

theorem identity_apply (op : BOp) (y : Atom) (L : Layout) (m : Mem) (x : Byte) (h : isIdentity op y = true) :
    op.apply x (val L m y) = x := by
  cases y with
  | var _ => simp [isIdentity] at h
  | const n =>
    have e255 : (255#8 : BitVec 8) = BitVec.allOnes 8 := by decide
    cases op <;> simp [isIdentity] at h <;> subst h <;> simp [BOp.apply, val]
    rw [e255, BitVec.and_allOnes]

/-- `LDA x ; <op> y` leaves `op x y` in A and nothing else that matters changed -/
theorem load_op (L : Layout) (s : Cpu) (op : BOp) (x y : Atom) :
    ∃ s', execSeq s ([(Mn.LDA, opd L x)] ++ (opInstrs op y).map (fun m => (m, if m == .CLC || m == .SEC then Opd.none else opd L y))) = some s' ∧
      s'.a = op.apply (val L s.mem x) (val L s.mem y) ∧ s'.mem = s.mem ∧ s'.x = s.x ∧ s'.y = s.y ∧ s'.sp = s.sp := by
  by_cases hid : isIdentity op y = true
  · -- the operation is skipped; at most the carry set-up is emitted
    have hv := identity_apply op y L s.mem (val L s.mem x) hid
    cases op <;> simp [opInstrs, carryOf, mainOf, hid, execSeq, Cpu.exec, rd_opd, hv]
  · have hid' : isIdentity op y = false := by simpa using hid
    cases op
    · simp [opInstrs, carryOf, mainOf, hid', execSeq, Cpu.exec, rd_opd]
      refine ⟨?_, ?_⟩
      · rw [adc_after_clc _ _ (by simp)]; simp [BOp.apply]
      · simp [Cpu.adc]
    · simp [opInstrs, carryOf, mainOf, hid', execSeq, Cpu.exec, rd_opd]
      refine ⟨?_, ?_⟩
      · rw [sbc_after_sec _ _ (by simp)]; simp [BOp.apply]
      · simp [Cpu.sbc, Cpu.adc]
    · simp [opInstrs, carryOf, mainOf, hid', execSeq, Cpu.exec, rd_opd, BOp.apply]
    · simp [opInstrs, carryOf, mainOf, hid', execSeq, Cpu.exec, rd_opd, BOp.apply]
    · simp [opInstrs, carryOf, mainOf, hid', execSeq, Cpu.exec, rd_opd, BOp.apply]

theorem execSeq_append (s : Cpu) (xs ys : List (Mn × Opd)) :
    execSeq s (xs ++ ys) = (execSeq s xs).bind fun s' => execSeq s' ys := by
  induction xs generalizing s with
  | nil => simp [execSeq]
  | cons p ps ih =>
    obtain ⟨mn, o⟩ := p
    simp only [List.cons_append, execSeq]
    cases h : s.exec mn o with
    | none => simp
    | some s1 => simp [ih]

theorem ordered_comm (op : BOp) (a b : Atom) (L : Layout) (m : Mem) :
    op.apply (val L m (ordered op a b).1) (val L m (ordered op a b).2) = op.apply (val L m a) (val L m b) := by
  unfold ordered
  split
  · rename_i h
    cases op <;> simp [BOp.commutes] at h <;> simp [BOp.apply, BitVec.add_comm, BitVec.and_comm, BitVec.or_comm, BitVec.xor_comm]
  · rfl

/-- every statement of the fragment, every layout, every machine state -/
theorem gen_stmt_correct (L : Layout) (st : FStmt) (s : Cpu) :
    ∃ s', execSeq s (genOps L st) = some s' ∧ s'.mem = spec L s.mem st ∧
      s'.x = s.x ∧ s'.y = s.y ∧ s'.sp = s.sp := by
  cases st with
  | asg v a =>
    simp only [genOps, template, execSeq, Cpu.exec, rd_opd, Option.map_some, Option.bind_some]
    simp [opd, Cpu.ea, spec]
  | bin v op a b =>
    obtain ⟨s1, h1, ha, hm, hx, hy, hsp⟩ := load_op L s op (ordered op a b).1 (ordered op a b).2
    simp only [genOps, template]
    rw [execSeq_append, h1]
    simp [execSeq, Cpu.exec, opd, Cpu.ea, spec, ha, hm, hx, hy, hsp, ordered_comm]
  | opasg v op a =>
    obtain ⟨s1, h1, ha, hm, hx, hy, hsp⟩ := load_op L s op (.var v) a
    simp only [genOps, template]
    rw [execSeq_append, h1]
    simp [execSeq, Cpu.exec, opd, Cpu.ea, spec, ha, hm, hx, hy, hsp, val]
  | inc v => simp [genOps, template, execSeq, Cpu.exec, opd, Cpu.ea, spec]
  | dec v => simp [genOps, template, execSeq, Cpu.exec, opd, Cpu.ea, spec]

/-- any sequence of statements of the fragment -/
theorem gen_block_correct (L : Layout) (sts : List FStmt) (s : Cpu) :
    ∃ s', execSeq s (sts.flatMap (genOps L)) = some s' ∧ s'.mem = specBlock L s.mem sts ∧
      s'.x = s.x ∧ s'.y = s.y ∧ s'.sp = s.sp := by
  induction sts generalizing s with
  | nil => exact ⟨s, by simp [execSeq], by simp [specBlock], rfl, rfl, rfl⟩
  | cons st rest ih =>
    obtain ⟨s1, h1, hm1, hx1, hy1, hs1⟩ := gen_stmt_correct L st s
    obtain ⟨s2, h2, hm2, hx2, hy2, hs2⟩ := ih s1
    refine ⟨s2, ?_, ?_, by rw [hx2, hx1], by rw [hy2, hy1], by rw [hs2, hs1]⟩
    · simp only [List.flatMap_cons]
      rw [execSeq_append, h1]
      simpa using h2
    · rw [hm2, hm1]; rfl

/-! non-vacuity: a program using every production of the fragment -/
def demo : List FStmt :=
  [.asg "a" (.const 5), .asg "b" (.var "a"), .bin "c" .add (.var "a") (.var "b"), .bin "c" .add (.const 3) (.var "b"),
   .bin "a" .sub (.const 3) (.var "b"), .bin "d" .band (.const 7) (.var "c"), .opasg "a" .bxor (.var "d"),
   .opasg "b" .sub (.const 1), .inc "a", .dec "d", .bin "d" .bor (.var "a") (.const 128)]
example : demo.all InFragment = true := by decide
example : genText (.bin "c" .add (.const 3) (.var "b")) = [(.LDA, "b"), (.CLC, ""), (.ADC, "#3"), (.STA, "c")] := by decide

end CV.C01
