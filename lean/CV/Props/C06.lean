/-
  Property C06 — diagnostics name the true source location.
  Models: `errorLine` (port of the offset → line loop shared by syntax_error / compiler_error /
  warning in src/compile.rs), CV.Cpp.spliceGroup (physical-line accounting of cpp::process).

  Proved:
   * `errorLine_eq_newlines_before` : for every preprocessed text and every offset 1 ≤ loc ≤ length,
     the line index computed by the loop is the number of newlines before position `loc`, i.e. the
     (0-based) output line containing the character at that offset — so the mapping entry consulted is
     the one of the line the offending token is on
   * `errorLine_zero_counts_all` : for `loc = 0` the loop never stops early and returns the number of
     ALL newlines (one past the last line when the text ends with a newline) — the sites that pass
     position 0 cannot be located (known finding, DESIGN.md section 7 row 9)
   * `splice_consumes` : joining spliced lines advances the physical line counter by exactly the
     number of physical lines consumed, so a logical line is attributed to its LAST physical line
  Not proved: that the mapping has exactly one entry per output line for every mix of constructs
  (`process` is compared with cpp::process, mapping included, by the correspondence) and that every
  error site passes the offset of the offending token (planted-error search).
-/
import CV.Cpp
set_option linter.unusedSimpArgs false
namespace CV.C06
open CV.Cpp

/-- the loop of `syntax_error`: `for c in chars { if c == '\n' { line += 1 } n += 1; if n == loc { break } }` -/
def errorLineGo (loc : Nat) : Str → Nat → Nat → Nat
  | [], line, _ => line
  | c :: cs, line, n =>
    let line' := if c == '\n' then line + 1 else line
    if n + 1 == loc then line' else errorLineGo loc cs line' (n + 1)

def errorLine (pre : Str) (loc : Nat) : Nat := errorLineGo loc pre 0 0

def newlines (s : Str) : Nat := (s.filter (· == '\n')).length

theorem errorLineGo_spec (loc : Nat) :
    ∀ (s : Str) (line n : Nat), n < loc → loc ≤ n + s.length →
      errorLineGo loc s line n = line + newlines (s.take (loc - n)) := by
  intro s
  induction s with
  | nil => intro line n h1 h2; simp at h2; omega
  | cons c cs ih =>
    intro line n h1 h2
    simp only [errorLineGo]
    by_cases he : n + 1 = loc
    · have : loc - n = 1 := by omega
      simp [he, this, newlines]
      by_cases hc : c = '\n' <;> simp [hc]
    · have hne : (n + 1 == loc) = false := by simpa using he
      simp only [hne, Bool.false_eq_true, if_false]
      rw [ih _ (n + 1) (by omega) (by simp at h2; omega)]
      have : loc - n = (loc - (n + 1)) + 1 := by omega
      rw [this, List.take_succ_cons]
      simp only [newlines, List.filter_cons]
      by_cases hc : c = '\n' <;> simp [hc] <;> omega

/-- offsets inside the text: the entry consulted is that of the line the token is on -/
theorem errorLine_eq_newlines_before (pre : Str) (loc : Nat) (h1 : 0 < loc) (h2 : loc ≤ pre.length) :
    errorLine pre loc = newlines (pre.take loc) := by
  have := errorLineGo_spec loc pre 0 0 h1 (by omega)
  simpa [errorLine] using this

theorem errorLineGo_zero : ∀ (s : Str) (line n : Nat), errorLineGo 0 s line n = line + newlines s := by
  intro s
  induction s with
  | nil => intro line n; simp [errorLineGo, newlines]
  | cons c cs ih =>
    intro line n
    simp only [errorLineGo]
    have : (n + 1 == 0) = false := by simp
    simp only [this, Bool.false_eq_true, if_false, ih]
    simp only [newlines, List.filter_cons]
    by_cases hc : c = '\n' <;> simp [hc] <;> omega

/-- position 0 is not a position: the loop runs to the end -/
theorem errorLine_zero_counts_all (pre : Str) : errorLine pre 0 = newlines pre := by
  simpa [errorLine] using errorLineGo_zero pre 0 0

/-- splicing: the counter advances by the number of physical lines consumed -/
theorem splice_consumes :
    ∀ (fuel : Nat) (buf : Str) (n : Nat) (rest : List Str) (b : Str) (n' : Nat) (rest' : List Str),
      spliceGroup fuel buf n rest = (b, n', rest') → n' + rest'.length = n + rest.length := by
  intro fuel
  induction fuel with
  | zero =>
    intro buf n rest b n' rest' h
    simp [spliceGroup] at h
    obtain ⟨_, h2, h3⟩ := h
    subst h2; subst h3; rfl
  | succ f ih =>
    intro buf n rest b n' rest' h
    simp only [spliceGroup] at h
    split at h
    · cases rest with
      | nil =>
        simp at h
        obtain ⟨_, h2, h3⟩ := h
        subst h2; subst h3; rfl
      | cons l r =>
        simp only at h
        have := ih _ _ _ _ _ _ h
        simp; omega
    · simp at h
      obtain ⟨_, h2, h3⟩ := h
      subst h2; subst h3; rfl

/-! non-vacuity -/
example : errorLine "ab\ncd\nef".toList 4 = 1 ∧ errorLine "ab\ncd\nef".toList 7 = 2 ∧ errorLine "ab\ncd\n".toList 0 = 2 := by decide
example : spliceGroup 5 "a \\\n".toList 1 ["b \\\n".toList, "c\n".toList, "d\n".toList]
    = ("a b c\n".toList, 3, ["d\n".toList]) := by decide

end CV.C06
