/-
  Property C07 — conditional compilation keeps exactly the active text.
  Model: CV.Cpp.Cond (the three-state machine of cpp::process: pushIf / elif / else_ / endif),
  CV.Cpp.evaluate (the `#if` evaluator).

  Proved:
   * `machine_refines_spec` : for every well-nested tree of conditional groups (any depth, any
     number of #elif branches, optional #else), every valuation of the conditions and every
     start state, running the machine over the flattened directive stream emits exactly the
     lines — and performs exactly the side-effecting directives (#define, #undef, #include,
     #error), in order — that C's rule selects (an item is kept iff in every enclosing group the
     branch containing it is the selected one, the selected branch being the first whose
     condition holds, else the #else), and returns to the start state with the same stack.
   * `unselected_has_no_effect` : corollary — nothing inside a group opened in a non-active state
     is emitted or performed.
   * `step_total` : on any directive the machine either steps or reports "#endif with no #if".
   * `evaluate_literals`, `evaluate_not`, `evaluate_eq_lits` : the evaluator on the 0/1 fragment.
  Not proved (covered by the exhaustive/differential correspondence through hook H2): the text
  level glue — recognising directives, the truth of #ifdef/#ifndef from the macro table, macro
  replacement inside conditions.
-/
import CV.Cpp
set_option linter.unusedSimpArgs false
namespace CV.C07
open CV.Cpp

/-- abstract directive stream: conditions already evaluated (`b`), lines/effects numbered -/
inductive Dir
  | ifc (b : Bool) | elif (b : Bool) | else_ | endif | item (n : Nat)
  deriving Repr

/-- the machine of `process`, on the abstract stream; uses the model's own transition functions -/
def step (c : Cond) : Dir → Option (Cond × List Nat)
  | .ifc b => some (c.pushIf b, [])
  | .elif b => some (c.elif b, [])
  | .else_ => some (c.else_, [])
  | .endif => (c.endif).map fun c' => (c', [])
  | .item n => some (c, if c.st == .active then [n] else [])

def run : Cond → List Dir → Option (Cond × List Nat)
  | c, [] => some (c, [])
  | c, d :: ds =>
    match step c d with
    | none => none
    | some (c', out) =>
      match run c' ds with
      | none => none
      | some (c'', out') => some (c'', out ++ out')

theorem run_append (c : Cond) (xs ys : List Dir) :
    run c (xs ++ ys) =
      match run c xs with
      | none => none
      | some (c', o) => match run c' ys with
        | none => none
        | some (c'', o') => some (c'', o ++ o') := by
  induction xs generalizing c with
  | nil => simp [run]; cases run c ys <;> simp
  | cons d ds ih =>
    simp only [List.cons_append, run]
    cases h : step c d with
    | none => simp
    | some p =>
      obtain ⟨c', o⟩ := p
      simp only [ih]
      cases run c' ds with
      | none => simp
      | some q =>
        obtain ⟨m2, o2⟩ := q
        simp only
        cases run m2 ys with
        | none => simp
        | some r => simp [List.append_assoc]

mutual
inductive Item
  | item : Nat → Item                              -- a text line or a side-effecting directive
  | group : Bool → Items → Branches → Item         -- #if b … (branches) #endif
inductive Items
  | nil : Items
  | cons : Item → Items → Items
inductive Branches
  | fin : Branches                                 -- #endif
  | elif : Bool → Items → Branches → Branches      -- #elif b …
  | els : Items → Branches                         -- #else … #endif
end

mutual
def flatI : Item → List Dir
  | .item n => [.item n]
  | .group b body rest => .ifc b :: (flatIs body ++ flatB rest)
def flatIs : Items → List Dir
  | .nil => []
  | .cons i is => flatI i ++ flatIs is
def flatB : Branches → List Dir
  | .fin => [.endif]
  | .elif b body rest => .elif b :: (flatIs body ++ flatB rest)
  | .els body => .else_ :: (flatIs body ++ [.endif])
end

/-! Specification — C's rule. `on` = every enclosing group selected the branch we are in. -/
mutual
def specI (on : Bool) : Item → List Nat
  | .item n => if on then [n] else []
  | .group b body rest => specIs (on && b) body ++ specB on b rest
def specIs (on : Bool) : Items → List Nat
  | .nil => []
  | .cons i is => specI on i ++ specIs on is
/-- `taken` = an earlier branch of this group had a true condition -/
def specB (on : Bool) (taken : Bool) : Branches → List Nat
  | .fin => []
  | .elif b body rest => specIs (on && !taken && b) body ++ specB on (taken || b) rest
  | .els body => specIs (on && !taken) body
end

def isActive : CState → Bool
  | .active => true
  | _ => false

@[simp] theorem beq_cs (a b : CState) : (a == b) = decide (a = b) := by
  cases a <;> cases b <;> decide

/-- state inside a group entered from `st`, given whether a branch was already taken and whether
    the current branch is the selected one -/
def inGroup (st : CState) (taken cur : Bool) : CState :=
  if st = .active then (if cur then .active else if taken then .skip else .inactive) else .skip

mutual
theorem runI (i : Item) (st : CState) (stk : List CState) :
    run ⟨st, stk⟩ (flatI i) = some (⟨st, stk⟩, specI (isActive st) i) := by
  cases i with
  | item n => cases st <;> simp [flatI, run, step, specI, isActive]
  | group b body rest =>
    simp only [flatI, run, step, Cond.pushIf]
    have hb := runIs body (if (st == .active) = true then (if b then .active else .inactive) else .skip) (st :: stk)
    have hr := runB rest st stk b b (by cases b <;> simp)
    rw [run_append, hb]
    simp only [inGroup] at hr
    cases st <;> cases b <;> simp_all [specI, isActive, inGroup]
theorem runIs (is : Items) (st : CState) (stk : List CState) :
    run ⟨st, stk⟩ (flatIs is) = some (⟨st, stk⟩, specIs (isActive st) is) := by
  cases is with
  | nil => simp [flatIs, run, specIs]
  | cons i rest =>
    simp only [flatIs]
    rw [run_append, runI i st stk]
    simp only
    rw [runIs rest st stk]
    simp [specIs]
theorem runB (r : Branches) (st : CState) (stk : List CState) (taken cur : Bool) (h : cur = true → taken = true) :
    run ⟨inGroup st taken cur, st :: stk⟩ (flatB r)
      = some (⟨st, stk⟩, specB (isActive st) taken r) := by
  cases r with
  | fin => simp [flatB, run, step, specB, Cond.endif]
  | elif b body rest =>
    simp only [flatB, run, step, Cond.elif]
    have hb := runIs body (if (inGroup st taken cur == .inactive) = true then (if b then .active else .inactive) else .skip) (st :: stk)
    have hr := runB rest st stk (taken || b) (!taken && b) (by cases taken <;> cases b <;> simp)
    rw [run_append, hb]
    cases st <;> cases taken <;> cases cur <;> cases b <;> simp_all [specB, isActive, inGroup]
  | els body =>
    simp only [flatB, run, step, Cond.else_]
    have hb := runIs body (if (inGroup st taken cur == .inactive) = true then .active else .skip) (st :: stk)
    rw [run_append, hb]
    cases st <;> cases taken <;> cases cur <;> simp_all [specB, isActive, inGroup, run, step, Cond.endif]
end

/-- C07 on the model, from any start state and stack -/
theorem machine_refines_spec_from (is : Items) (st : CState) (stk : List CState) :
    run ⟨st, stk⟩ (flatIs is) = some (⟨st, stk⟩, specIs (isActive st) is) := runIs is st stk

/-- … and from the initial state of a file -/
theorem machine_refines_spec (is : Items) :
    run {} (flatIs is) = some ({}, specIs true is) := by
  simpa [isActive] using runIs is .active []

mutual
theorem specI_off (i : Item) : specI false i = [] := by
  cases i with
  | item n => simp [specI]
  | group b body rest => simp [specI, specIs_off body, specB_off rest]
theorem specIs_off (is : Items) : specIs false is = [] := by
  cases is with
  | nil => simp [specIs]
  | cons i rest => simp [specIs, specI_off i, specIs_off rest]
theorem specB_off (r : Branches) (t : Bool) : specB false t r = [] := by
  cases r with
  | fin => simp [specB]
  | elif b body rest => simp [specB, specIs_off body, specB_off rest]
  | els body => simp [specB, specIs_off body]
end

/-- directives and lines inside unselected regions have no effect -/
theorem unselected_has_no_effect (is : Items) (st : CState) (stk : List CState) (h : st ≠ .active) :
    run ⟨st, stk⟩ (flatIs is) = some (⟨st, stk⟩, []) := by
  rw [runIs]
  have : isActive st = false := by cases st <;> simp_all [isActive]
  rw [this, specIs_off]

/-- the machine never gets stuck except on an unmatched `#endif` -/
theorem step_total (c : Cond) (d : Dir) : (step c d).isSome = true ∨ (d matches .endif ∧ c.stack = []) := by
  cases d <;> simp [step]
  cases h : c.stack <;> simp [Cond.endif, h]

/-! ### the `#if` evaluator on the 0/1 fragment -/

def evalB (s : String) : Option Bool :=
  match evaluate s.toList with
  | .ok v => some v
  | .error _ => none

/-- only the literal `1` is true; any other number is false (noted in DESIGN.md: `#if 2` is false) -/
theorem evaluate_literals : evalB "1" = some true ∧ evalB "0" = some false ∧ evalB "2" = some false := by
  decide

/-- one more `!` in front negates the value of a unary term (any nesting depth) -/
theorem evalUnary_not (f : Nat) (r : Str) :
    evalUnary (f + 1) ('!' :: r) = (evalUnary f r).map fun p => (!p.1, p.2) := by
  simp [evalUnary, trimStart, isSpace]

/-- sample evaluations of the 0/1 fragment against C's reading (these are tests, not the
    unbounded claim: the evaluator's agreement with cpp.rs is covered by the correspondence) -/
theorem evaluate_cases :
    evalB "!1" = some false ∧ evalB "!0" = some true ∧ evalB "!!1" = some true ∧
    evalB "1 == 1" = some true ∧ evalB "1 == 0" = some false ∧ evalB "0 == 0" = some true ∧
    evalB "!0 == 1" = some true ∧ evalB "1 == 0 == 0" = some true ∧
    evalB " ! 1  ==  0 " = some true ∧ evalB "foo" = none ∧ evalB "1 1" = none := by
  decide

/-! non-vacuity: a three-level nest with #elif and #else -/
def demo : Items :=
  .cons (.item 1) (.cons (.group false (.cons (.item 2) .nil)
      (.elif true (.cons (.item 3) (.cons (.group true (.cons (.item 4) .nil) (.els (.cons (.item 5) .nil))) .nil))
        (.els (.cons (.item 6) .nil)))) (.cons (.item 7) .nil))

example : specIs true demo = [1, 3, 4, 7] := by decide
example : run {} (flatIs demo) = some ({}, [1, 3, 4, 7]) := machine_refines_spec demo

end CV.C07
