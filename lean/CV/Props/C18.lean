/-
  Property C18 — timing and hardware-access statements are emitted exactly.
  Models: CV.Gen.csleepArms (translated on every run from generate_csleep_statement), CV.Opt
  (port of optimize), CV.Encode (cycle table from the MOS data sheet), CV.Mos (semantics).

  Proved:
   * `csleep_cycles` : every arm of the csleep table takes exactly n cycles (zero-page DUMMY)
   * `csleep_arms_protected` : every instruction of every arm is emitted protected, or is STA/DEC of DUMMY
   * `csleep_state`  : for every machine state and every DUMMY address, every arm leaves A, X, Y,
                       SP, C, V unchanged and every memory cell except DUMMY and the byte under the
                       stack pointer unchanged
   * `optimize_length`, `optimize_keeps_nonInstr` : the optimiser neither moves nor touches labels,
                       inline lines, comments
   * `explicit_accesses_preserved` : for *any* line vector, the sequence of inline lines and
                       protected instructions (other than compares and the LDA/CLC/SEC the swap rule
                       exchanges) after `optimize` equals the sequence before — none removed, none
                       duplicated, none reordered
  Stated limits (each with a concrete witness below, so that nobody reads more into the theorems):
   * `protected_cmp_removed_witness`  : the compare-folding rule ignores `protected` on the compare
   * `swap_moves_protected_lda_witness`: a protected `LDA` followed by `CLC` changes place with it
                                        (never across an inline line: `swap_stops_at_inline_witness`)
   * `dec_changes_flags_witness`      : csleep arms built from DEC / PLA change N and Z
  The order of protected `LDA`s relative to inline lines is therefore checked per compiled function
  (static comparison of the -O0 and -O1 sequences) and by co-execution, not by theorem.
-/
import CV.Proofs.OptLemmas
import CV.Gen.Tables
set_option linter.unusedSimpArgs false
namespace CV.C18
open CV CV.Gen

/-! ### csleep -/

def armCycles (seq : List (Mn × Bool × Bool)) : Nat :=
  (seq.map fun t => (encCycles t.1 (if t.2.1 then Mode.zp else Mode.impl)).getD 1000).sum

theorem csleep_cycles : ∀ arm ∈ csleepArms, armCycles arm.2 = arm.1 := by decide

/-- every instruction of a csleep sequence is either emitted `protected` or is the store / decrement of
    the compiler's own DUMMY cell (which no optimiser rule can remove: `STA m` only goes after `LDA m`,
    and DUMMY cannot be named in a program; `DEC` is touched by no rule). An unprotected `PHA` / `PLA` /
    `NOP` … would be open to the peephole rules (e.g. `PLA ; PHA` of two adjacent `csleep(7)`). -/
theorem csleep_arms_protected : ∀ arm ∈ csleepArms, ∀ i ∈ arm.2,
    i.2.2 = true ∨ (i.2.1 = true ∧ (i.1 = Mn.STA ∨ i.1 = Mn.DEC)) := by decide

def execSeq (s : Cpu) : List (Mn × Opd) → Option Cpu
  | [] => some s
  | (mn, o) :: r => (s.exec mn o).bind fun s' => execSeq s' r

def armOps (d : Word) (seq : List (Mn × Bool × Bool)) : List (Mn × Opd) :=
  seq.map fun t => (t.1, if t.2.1 then Opd.mem d else Opd.none)

/-- what "changes nothing the program can see" means for a csleep sequence -/
def Harmless (d : Word) (s s' : Cpu) : Prop :=
  s'.a = s.a ∧ s'.x = s.x ∧ s'.y = s.y ∧ s'.sp = s.sp ∧ s'.f.c = s.f.c ∧ s'.f.v = s.f.v ∧
  ∀ a : Word, a ≠ d → a ≠ Cpu.stackAddr s.sp → s'.mem.read a = s.mem.read a

theorem sp_roundtrip (sp : Byte) : sp - 1#8 + 1#8 = sp := by
  apply BitVec.eq_of_toNat_eq
  simp [BitVec.toNat_add, BitVec.toNat_sub]
  omega

theorem csleep_state (d : Word) (s : Cpu) :
    ∀ arm ∈ csleepArms, ∃ s', execSeq s (armOps d arm.2) = some s' ∧ Harmless d s s' := by
  intro arm h
  simp only [csleepArms, List.mem_cons, List.mem_nil_iff, or_false] at h
  rcases h with h | h | h | h | h | h | h | h | h <;> subst h <;>
    simp [armOps, execSeq, Cpu.exec, Cpu.ea, Harmless, Cpu.setNZ, Cpu.push, Cpu.pull, sp_roundtrip] <;>
    (intro a h1 h2; simp [Mem.read_write_other, Ne.symm h1, Ne.symm h2])

/-! ### the optimiser and explicit accesses -/

theorem optimize_length (c : Code) : (optimize c).1.length = c.length := by
  have := (optimize_inv c).size
  simpa using this

theorem optimize_keeps_nonInstr (c : Code) (i : Nat) (l : Line)
    (h : c[i]? = some l) (hn : NonInstr l = true) : (optimize c).1[i]? = some l := by
  have := (optimize_inv c).fixed i l h hn
  simpa using this

/-- inline lines and protected instructions are neither removed, duplicated nor reordered -/
theorem explicit_accesses_preserved (c : Code) :
    (optimize c).1.filter Kept = c.filter Kept := by
  have := (optimize_inv c).kept
  simpa using this

/-! ### witnesses of what the theorems deliberately do not say -/

def ins (mn : Mn) (opd : String := "") (prot : Bool := false) : Line :=
  .instr { mn := mn, opd := opd, prot := prot }

theorem protected_cmp_removed_witness :
    (optimize [ins .LDA "#3", ins .CMP "#3" true, ins .BNE ".l", ins .RTS]).1
      = [ins .LDA "#3", .dummy, .dummy, ins .RTS] := by decide +kernel

theorem swap_moves_protected_lda_witness :
    (optimize [ins .LDA "v" true, .comment "c", ins .CLC, ins .RTS]).1
      = [ins .CLC, .comment "c", ins .LDA "v" true, ins .RTS] := by decide +kernel

/-- since the `fix:` that makes inline assembly a barrier, the swap never crosses an inline line -/
theorem swap_stops_at_inline_witness :
    (optimize [ins .LDA "v" true, .inline "NOP" 1, ins .CLC, ins .RTS]).1
      = [ins .LDA "v" true, .inline "NOP" 1, ins .CLC, ins .RTS] := by decide +kernel

theorem dec_changes_flags_witness :
    ∃ s : Cpu, ∃ s', s.exec .DEC (.mem 0x2d) = some s' ∧ s'.f.z ≠ s.f.z := by
  refine ⟨{ f := { z := true } }, _, rfl, ?_⟩
  decide +kernel

/-! non-vacuity -/
example : (2, [(Mn.NOP, false, true)]) ∈ csleepArms := by decide
example : Kept (ins .STA "REG" true) = true ∧ Kept (.inline "NOP" 1) = true ∧ Kept (ins .STA "REG") = false := by decide
example : ((optimize [ins .LDA "v" true, ins .STA "v" true, ins .LDA "v", ins .STA "w"]).1).filter Kept
    = [ins .STA "v" true] := by decide +kernel

end CV.C18
