/-
  Property C13 — emitted assembly always assembles.
  Models: CV.AsmSel (modes), CV.Inline (label renaming on inline expansion), CV.Branch (.fix labels).

  Proved here, for all labels / counters / line vectors:
   * `rename_injective`      : (l, n) ↦ l ++ "inline" ++ n is injective (different counters never
                               produce the same label, whatever the labels)
   * `push_labels_nodup`     : expanding a callee with unique labels into a caller with unique
                               labels keeps the caller's labels unique, provided the caller has no
                               label of the shape `… inline<n>` for this (fresh) counter
   * `push_keeps_later_fresh`: after the expansion the caller still has no label of the shape
                               `… inline<m>` for any later counter m > n — so by induction any
                               sequence (and nesting) of expansions with increasing counters keeps
                               labels unique (`pushes_nodup`)
   * `push_refs_closed`      : every reference of the expanded body that was defined in the callee
                               (or was `.endof`) is defined in the result
   * `fix_labels_distinct`   : `.fixN`/`.fixupN` labels of different repairs differ
   * `legal_modes`           : C04's table theorem restated: a successful applicable `asm()` call
                               outside `unguardedRMW` selects a mode the 6502 has
   * `label_text_injective`, `gen_labels_nodup`, `gen_label_texts_nodup`, `gen_targets_defined`
                             : label discipline of the generator itself on the fragment whose port is
                               tied text-exactly to the real -O0 output (CV.GenStruct: blocks, if,
                               if/else, while, do-while, for, any nesting): the label lines of the
                               emitted code are pairwise distinct, also as text (`.ifend12` vs
                               `.ifend1`+`2` cannot collide), and every branch or jump target is
                               defined in the same code — for every program and generator state
  Not proved: label discipline of the generator outside that fragment (`&&`/`||` `.ifstart` labels,
  switch, break/continue); it is checked on every compiled function by the independent front end
  (labels defined once, references defined, every line assembles).
-/
import CV.Inline
import CV.Branch
import CV.Props.C04
import CV.Proofs.GenStructLemmas
set_option linter.unusedSimpArgs false
set_option linter.constructorNameAsVariable false
namespace CV.C13
open CV

/-! ### digits -/

theorem digits_all (n : Nat) : ∀ c ∈ (toString n).toList, c.isDigit = true := by
  intro c hc
  have : (toString n).toList = Nat.toDigits 10 n := Nat.toList_repr
  rw [this] at hc
  exact Nat.isDigit_of_mem_toDigits (by decide) (by decide) hc

theorem toString_inj (a b : Nat) (h : toString a = toString b) : a = b := by
  have ha : (toString a).toList = Nat.toDigits 10 a := Nat.toList_repr
  have hb : (toString b).toList = Nat.toDigits 10 b := Nat.toList_repr
  have : Nat.toDigits 10 a = Nat.toDigits 10 b := by rw [← ha, ← hb, h]
  have h2 := congrArg (fun l => Nat.ofDigitChars 10 l 0) this
  simpa [Nat.ofDigitChars_ten_toDigits] using h2

/-- the digit suffix of `x ++ 'e' :: digits` read from the right is exactly `digits` -/
theorem takeWhile_digits (xs ds : List Char) (hd : ∀ c ∈ ds, c.isDigit = true) :
    (xs ++ 'e' :: ds).reverse.takeWhile Char.isDigit = ds.reverse := by
  have : (xs ++ 'e' :: ds).reverse = ds.reverse ++ ('e' :: xs.reverse) := by simp
  rw [this, List.takeWhile_append_of_pos (by intro a ha; exact hd a (by simpa using ha))]
  simp [List.takeWhile]

theorem suffix_toList (n : Nat) :
    (suffixOf n).toList = ['i', 'n', 'l', 'i', 'n'] ++ 'e' :: (toString n).toList := by
  have : ("inline" : String).toList = ['i', 'n', 'l', 'i', 'n', 'e'] := by decide
  simp [suffixOf, String.toList_append, this]

/-- renaming is injective in the pair (label, counter) -/
theorem rename_injective (l₁ l₂ : String) (n₁ n₂ : Nat)
    (h : l₁ ++ suffixOf n₁ = l₂ ++ suffixOf n₂) : l₁ = l₂ ∧ n₁ = n₂ := by
  have h' := congrArg String.toList h
  simp only [String.toList_append, suffix_toList] at h'
  have e1 : l₁.toList ++ (['i', 'n', 'l', 'i', 'n'] ++ 'e' :: (toString n₁).toList)
      = (l₁.toList ++ ['i', 'n', 'l', 'i', 'n']) ++ 'e' :: (toString n₁).toList := by simp
  have e2 : l₂.toList ++ (['i', 'n', 'l', 'i', 'n'] ++ 'e' :: (toString n₂).toList)
      = (l₂.toList ++ ['i', 'n', 'l', 'i', 'n']) ++ 'e' :: (toString n₂).toList := by simp
  rw [e1, e2] at h'
  have hd := congrArg (fun l => (List.reverse l).takeWhile Char.isDigit) h'
  simp only [takeWhile_digits _ _ (digits_all n₁), takeWhile_digits _ _ (digits_all n₂)] at hd
  have hdig : (toString n₁).toList = (toString n₂).toList := by
    have := congrArg List.reverse hd
    simpa using this
  have hn : n₁ = n₂ := toString_inj _ _ (String.toList_inj.mp hdig)
  subst hn
  refine ⟨?_, rfl⟩
  have : l₁.toList ++ (suffixOf n₁).toList = l₂.toList ++ (suffixOf n₁).toList := by
    have := congrArg String.toList h
    simpa [String.toList_append] using this
  exact String.toList_inj.mp (List.append_cancel_right this)

/-! ### labels under expansion -/

theorem labelsOf_append (a b : Code) : labelsOf (a ++ b) = labelsOf a ++ labelsOf b := by
  induction a with
  | nil => simp [labelsOf]
  | cons x xs ih => cases x <;> simp [labelsOf, ih]

theorem labelsOf_map_rename (c : Code) (n : Nat) :
    labelsOf (c.map (renameLine n)) = (labelsOf c).map (· ++ suffixOf n) := by
  induction c with
  | nil => simp [labelsOf]
  | cons x xs ih =>
    cases x with
    | label l => simp [labelsOf, renameLine, ih]
    | instr i =>
      by_cases hr : i.mn.isRenamed = true <;> simp [labelsOf, renameLine, hr, ih]
    | inline t s => simp [labelsOf, renameLine, ih]
    | comment s => simp [labelsOf, renameLine, ih]
    | dummy => simp [labelsOf, renameLine, ih]

theorem labelsOf_push (caller callee : Code) (n : Nat) :
    labelsOf (pushCode caller callee n)
      = labelsOf caller ++ (labelsOf callee).map (· ++ suffixOf n) ++ [".endof" ++ suffixOf n] := by
  have e : ".endofinline" ++ toString n = ".endof" ++ suffixOf n := by
    apply String.toList_inj.mp
    have a1 : (".endofinline" : String).toList = (".endof" : String).toList ++ ("inline" : String).toList := by decide
    simp [suffixOf, String.toList_append, a1]
  simp [pushCode, appendCode, labelsOf_append, labelsOf_map_rename, labelsOf]
  exact e

/-- no label of `c` has the shape `x ++ "inline" ++ m` for a counter `m ≥ n` -/
def FreshFrom (n : Nat) (c : Code) : Prop :=
  ∀ l ∈ labelsOf c, ∀ m, n ≤ m → ∀ x : String, l ≠ x ++ suffixOf m

/-- one expansion keeps labels unique -/
theorem push_labels_nodup (caller callee : Code) (n : Nat)
    (h1 : (labelsOf caller).Nodup) (h2 : (labelsOf callee).Nodup)
    (h3 : ".endof" ∉ labelsOf callee) (hf : FreshFrom n caller) :
    (labelsOf (pushCode caller callee n)).Nodup := by
  rw [labelsOf_push, List.append_assoc]
  have inj : ∀ a b : String, a ++ suffixOf n = b ++ suffixOf n → a = b :=
    fun a b h => (rename_injective a b n n h).1
  have hmap : ((labelsOf callee).map (· ++ suffixOf n)).Nodup := by
    exact List.Pairwise.map _ (fun a b hab e => hab (inj a b e)) h2
  have hend : (".endof" ++ suffixOf n) ∉ (labelsOf callee).map (· ++ suffixOf n) := by
    intro hm
    obtain ⟨a, ha, hae⟩ := List.mem_map.mp hm
    have := inj a ".endof" hae
    exact h3 (this ▸ ha)
  have hright : ((labelsOf callee).map (· ++ suffixOf n) ++ [".endof" ++ suffixOf n]).Nodup := by
    rw [List.nodup_append]
    refine ⟨hmap, by simp, ?_⟩
    intro a ha b hb
    simp at hb
    subst hb
    intro e; exact hend (e ▸ ha)
  rw [List.nodup_append]
  refine ⟨h1, hright, ?_⟩
  intro a ha b hb
  intro e
  subst e
  rcases List.mem_append.mp hb with hb | hb
  · obtain ⟨x, _, hx⟩ := List.mem_map.mp hb
    exact hf a ha n (Nat.le_refl _) x hx.symm
  · simp at hb
    exact hf a ha n (Nat.le_refl _) ".endof" hb

/-- … and leaves the caller ready for every later counter -/
theorem push_keeps_later_fresh (caller callee : Code) (n : Nat) (hf : FreshFrom n caller) :
    FreshFrom (n + 1) (pushCode caller callee n) := by
  intro l hl m hm x
  rw [labelsOf_push, List.append_assoc] at hl
  rcases List.mem_append.mp hl with hl | hl
  · exact hf l hl m (by omega) x
  · have hshape : ∃ y : String, l = y ++ suffixOf n := by
      rcases List.mem_append.mp hl with hl | hl
      · obtain ⟨y, _, hy⟩ := List.mem_map.mp hl; exact ⟨y, hy.symm⟩
      · simp at hl; exact ⟨".endof", hl⟩
    obtain ⟨y, hy⟩ := hshape
    intro e
    have := (rename_injective y x n m (by rw [← hy, e])).2
    omega

/-- any sequence of expansions with increasing counters n, n+1, … (each callee may itself be the
    result of earlier expansions: only uniqueness of its labels and absence of `.endof` are used) -/
theorem pushes_nodup (callees : List Code) :
    ∀ (caller : Code) (n : Nat), (labelsOf caller).Nodup → FreshFrom n caller →
      (∀ c ∈ callees, (labelsOf c).Nodup ∧ ".endof" ∉ labelsOf c) →
      (labelsOf ((callees.zipIdx n).foldl (fun acc p => pushCode acc p.1 p.2) caller)).Nodup := by
  induction callees with
  | nil => intro caller n h _ _; simpa using h
  | cons c cs ih =>
    intro caller n h hf hc
    simp only [List.zipIdx_cons, List.foldl_cons]
    have hc0 := hc c (by simp)
    exact ih _ (n + 1) (push_labels_nodup caller c n h hc0.1 hc0.2 hf)
      (push_keeps_later_fresh caller c n hf) (fun c' hc' => hc c' (by simp [hc']))

theorem refsOf_append (a b : Code) : refsOf (a ++ b) = refsOf a ++ refsOf b := by
  induction a with
  | nil => simp [refsOf]
  | cons x xs ih =>
    cases x with
    | instr i => by_cases hr : i.mn.isRenamed = true <;> simp [refsOf, hr, ih]
    | label l => simp [refsOf, ih]
    | inline t s => simp [refsOf, ih]
    | comment s => simp [refsOf, ih]
    | dummy => simp [refsOf, ih]

theorem refsOf_map_rename (c : Code) (n : Nat) :
    refsOf (c.map (renameLine n)) = (refsOf c).map (· ++ suffixOf n) := by
  induction c with
  | nil => simp [refsOf]
  | cons x xs ih =>
    cases x with
    | instr i =>
      by_cases hr : i.mn.isRenamed = true
      · simp [refsOf, renameLine, hr, ih]
      · simp [refsOf, renameLine, hr, ih]
    | label l => simp [refsOf, renameLine, ih]
    | inline t s => simp [refsOf, renameLine, ih]
    | comment s => simp [refsOf, renameLine, ih]
    | dummy => simp [refsOf, renameLine, ih]

/-- references stay closed: whatever the callee's branches and jumps referred to — one of its own
    labels, or `.endof` (the inline return) — is defined after the expansion -/
theorem push_refs_closed (caller callee : Code) (n : Nat)
    (hc : ∀ r ∈ refsOf callee, r ∈ labelsOf callee ∨ r = ".endof") :
    ∀ r ∈ refsOf (callee.map (renameLine n)), r ∈ labelsOf (pushCode caller callee n) := by
  intro r hr
  rw [refsOf_map_rename] at hr
  obtain ⟨r0, hr0, e⟩ := List.mem_map.mp hr
  rw [labelsOf_push]
  rcases hc r0 hr0 with h | h
  · have : r ∈ (labelsOf callee).map (· ++ suffixOf n) := List.mem_map.mpr ⟨r0, h, e⟩
    simp [this]
  · subst h; simp [← e]

/-- labels of different long-branch repairs differ -/
theorem fix_labels_distinct (a b : Nat) (h : ".fix" ++ toString a = ".fix" ++ toString b) : a = b := by
  have h' := congrArg String.toList h
  simp only [String.toList_append] at h'
  exact toString_inj _ _ (String.toList_inj.mp (List.append_cancel_left h'))

theorem fixup_labels_distinct (a b : Nat) (h : ".fixup" ++ toString a = ".fixup" ++ toString b) : a = b := by
  have h' := congrArg String.toList h
  simp only [String.toList_append] at h'
  exact toString_inj _ _ (String.toList_inj.mp (List.append_cancel_left h'))

/-- modes: a successful applicable call of `asm()` outside the unguarded list has an encoding -/
theorem legal_modes (mn : Mn) (hmn : mn ∈ C04.asmMns) (k : OKind) (ty : VType) (c zp s1 e h : Bool)
    (f : Form) (nb cyc : Nat) (alt : Option Nat)
    (hs : selA mn k ty c zp s1 e h = SelA.ok f nb cyc alt) (ha : applicable mn f = true)
    (hu : C04.unguardedRMW mn f = false) :
    (modeOfForm mn f zp).isSome = true := by
  obtain ⟨m, hm, _⟩ := C04.selA_size_mode mn hmn k ty c zp s1 e h f nb cyc alt hs ha hu
  simp [hm]

/-! non-vacuity: the same callee expanded twice -/
def callee : Code := [.label ".a", mkBranch .BNE ".a", mkJmp ".endof"]
example : labelsOf (pushCode (pushCode [.label ".m"] callee 1) callee 2)
    = [".m", ".ainline1", ".endofinline1", ".ainline2", ".endofinline2"] := by decide
example : FreshFrom 1 [Line.label ".m"] := by
  intro l hl m _ x e
  simp [labelsOf] at hl
  subst hl
  have := congrArg String.toList e
  simp only [String.toList_append, suffix_toList] at this
  have hlen := congrArg List.length this
  have e1 : (".m" : String).toList.length = 2 := by decide
  simp [e1] at hlen
  omega

end CV.C13

/-! ## labels of the structured-control-flow generator (stage 2 of the C01 port)
   `label_text_injective`, `gen_labels_nodup`, `gen_label_texts_nodup`, `gen_targets_defined`:
   for EVERY program of the stage-2 fragment (any nesting) and every generator state, the label lines of the
   emitted code are pairwise distinct — also as text — and every branch/jump target is defined in it. -/
namespace CV.C13
open CV CV.GenStruct CV.GenFlat CV.GenReg

/-- the digit suffix of `x ++ c :: digits` (c not a digit) read from the right is `digits` -/
theorem takeWhile_digits_gen (xs ds : List Char) (c : Char) (hc : c.isDigit = false) (hd : ∀ c ∈ ds, c.isDigit = true) :
    (xs ++ c :: ds).reverse.takeWhile Char.isDigit = ds.reverse := by
  have : (xs ++ c :: ds).reverse = ds.reverse ++ (c :: xs.reverse) := by simp
  rw [this, List.takeWhile_append_of_pos (by intro a ha; exact hd a (by simpa using ha))]
  simp [List.takeWhile, hc]

/-- every kind text ends in a letter: `init ++ [last]` with `last` not a digit -/
theorem kind_text_shape (k : LKind) : ∃ (i : List Char) (c : Char), k.text.toList = i ++ [c] ∧ c.isDigit = false := by
  cases k
  · exact ⟨".ifen".toList, 'd', by decide, by decide⟩
  · exact ⟨".els".toList, 'e', by decide, by decide⟩
  · exact ⟨".ifher".toList, 'e', by decide, by decide⟩
  · exact ⟨".ifstar".toList, 't', by decide, by decide⟩
  · exact ⟨".whil".toList, 'e', by decide, by decide⟩
  · exact ⟨".whileen".toList, 'd', by decide, by decide⟩
  · exact ⟨".dowhil".toList, 'e', by decide, by decide⟩
  · exact ⟨".dowhileen".toList, 'd', by decide, by decide⟩
  · exact ⟨".dowhileconditio".toList, 'n', by decide, by decide⟩
  · exact ⟨".fo".toList, 'r', by decide, by decide⟩
  · exact ⟨".forupdat".toList, 'e', by decide, by decide⟩
  · exact ⟨".foren".toList, 'd', by decide, by decide⟩

theorem kind_text_inj (a b : LKind) (h : a.text = b.text) : a = b := by
  cases a <;> cases b <;> first | rfl | (exfalso; revert h; decide)

/-- label text determines the label: distinct (kind, counter) pairs never collide as text -/
theorem label_text_injective (l₁ l₂ : Lbl) (h : l₁.text = l₂.text) : l₁ = l₂ := by
  obtain ⟨k₁, n₁⟩ := l₁
  obtain ⟨k₂, n₂⟩ := l₂
  simp only [Lbl.text] at h
  have h' := congrArg String.toList h
  simp only [String.toList_append] at h'
  obtain ⟨i₁, c₁, e₁, hc₁⟩ := kind_text_shape k₁
  obtain ⟨i₂, c₂, e₂, hc₂⟩ := kind_text_shape k₂
  rw [e₁, e₂] at h'
  have f1 : i₁ ++ [c₁] ++ (toString n₁).toList = i₁ ++ c₁ :: (toString n₁).toList := by simp
  have f2 : i₂ ++ [c₂] ++ (toString n₂).toList = i₂ ++ c₂ :: (toString n₂).toList := by simp
  rw [f1, f2] at h'
  have hd := congrArg (fun l => (List.reverse l).takeWhile Char.isDigit) h'
  simp only [takeWhile_digits_gen _ _ _ hc₁ (digits_all n₁), takeWhile_digits_gen _ _ _ hc₂ (digits_all n₂)] at hd
  have hdig : (toString n₁).toList = (toString n₂).toList := by
    have := congrArg List.reverse hd
    simpa using this
  have hn : n₁ = n₂ := toString_inj _ _ (String.toList_inj.mp hdig)
  subst hn
  have hk : k₁.text.toList = k₂.text.toList := by
    have := congrArg String.toList h
    simp only [String.toList_append] at this
    exact List.append_cancel_right this
  have := kind_text_inj k₁ k₂ (String.toList_inj.mp hk)
  subst this
  rfl

end CV.C13

namespace CV.C13
open CV CV.GenStruct CV.GenFlat CV.GenReg

theorem nodup_two {g g1 : GState} {c1 : List GLine} {r : List GLine × GState}
    (h1 : Fresh g (c1, g1)) (h2 : Fresh g1 r) (n1 : (labels c1).Nodup) (n2 : (labels r.1).Nodup) :
    (labels (c1 ++ r.1)).Nodup := by
  rw [labels_append, List.nodup_append]
  refine ⟨n1, n2, ?_⟩
  intro a ha b hb hab
  subst hab
  have x : a.idx ≤ g1.ctr a.kind.ctr := (h1.2 a ha).2
  have y : g1.ctr a.kind.ctr < a.idx := (h2.2 a hb).1
  omega

theorem branchInstr_nodup (g : GState) (op : COp) (label : Lbl) : (labels (branchInstr g op label).1).Nodup := by
  cases op <;> simp [branchInstr]

theorem genCond_nodup (c : Cond) : ∀ (g : GState) (negate : Bool) (label : Lbl), (labels (genCond g c negate label).1).Nodup := by
  have hz : ∀ g v op label, (labels (zeroTest g v op label).1).Nodup := by
    intro g v op label
    unfold zeroTest
    by_cases h : g.flags = some v <;> cases op <;> simp [h, labels_loadRef]
  have hc : ∀ g v right op label, (labels (cmpTest g v right op label).1).Nodup := by
    intro g v right op label
    have hp : labels (cmpPre v right) = [] := labels_cmpPre v right
    simp [cmpTest, branchInstr_nodup, hp]
  induction c with
  | cmp op a b =>
    intro g negate label
    simp only [genCond, genCondEx]
    split
    · simp
    · split
      · exact hz _ _ _ _
      · exact hc _ _ _ _ _
    · split
      · exact hz _ _ _ _
      · exact hc _ _ _ _ _
    · simp
    · split
      · exact hz _ _ _ _
      · exact hc _ _ _ _ _
    · split
      · exact hz _ _ _ _
      · exact hc _ _ _ _ _
    · simp
  | truth v => intro g negate label; exact hz _ _ _ _
  | nottruth v => intro g negate label; exact hz _ _ _ _
  | not c ih => intro g negate label; simp only [genCond]; exact ih ..
  | cmpE op e b eLeft =>
    intro g negate label
    simp only [genCond, cmpETest]
    split
    · split <;> simp [labels_treeLines]
    · simp [labels_treeLines, branchInstr_nodup]
  | truthE e =>
    intro g negate label
    simp only [genCond, truthETest]
    by_cases h : e.topArithm = true <;> simp [labels_treeLines, h]
  | cmpR op e y eLeft =>
    intro g negate label
    simp only [genCond, cmpRTest]
    simp [labels_treeLines, branchInstr_nodup]
  | wcmp ne s w =>
    intro g negate label
    simp only [genCond, wcmpTest]
    split <;> simp [labels_insLines]
  | and a b iha ihb =>
    intro g negate label
    cases negate with
    | true =>
      simp only [genCond]
      exact nodup_two (genCond_fresh a g true label) (genCond_fresh b _ true label) (iha ..) (ihb ..)
    | false =>
      simp only [genCond]
      have f1 := genCond_fresh a { g with cIf := g.cIf + 1 } true ⟨.ifstart, g.cIf⟩
      have f2 := genCond_fresh b (genCond { g with cIf := g.cIf + 1 } a true ⟨.ifstart, g.cIf⟩).2 false label
      have h2 := nodup_two f1 f2 (iha ..) (ihb ..)
      rw [labels_append, List.nodup_append]
      refine ⟨h2, by simp, ?_⟩
      intro x hx y hy hxy
      simp at hy
      subst hxy; subst hy
      simp at hx
      have k1 := f1.1 .cIf
      simp [GState.ctr] at k1
      rcases hx with hx | hx
      · have := (f1.2 _ hx).1; simp [LKind.ctr, GState.ctr, Lbl.idx] at this
      · have := (f2.2 _ hx).1; simp [LKind.ctr, GState.ctr, Lbl.idx] at this; omega
  | or a b iha ihb =>
    intro g negate label
    cases negate with
    | false =>
      simp only [genCond]
      exact nodup_two (genCond_fresh a g false label) (genCond_fresh b _ false label) (iha ..) (ihb ..)
    | true =>
      simp only [genCond]
      have f1 := genCond_fresh a { g with cIf := g.cIf + 1 } false ⟨.ifstart, g.cIf⟩
      have f2 := genCond_fresh b (genCond { g with cIf := g.cIf + 1 } a false ⟨.ifstart, g.cIf⟩).2 true label
      have h2 := nodup_two f1 f2 (iha ..) (ihb ..)
      rw [labels_append, List.nodup_append]
      refine ⟨h2, by simp, ?_⟩
      intro x hx y hy hxy
      simp at hy
      subst hxy; subst hy
      simp at hx
      have k1 := f1.1 .cIf
      simp [GState.ctr] at k1
      rcases hx with hx | hx
      · have := (f1.2 _ hx).1; simp [LKind.ctr, GState.ctr, Lbl.idx] at this
      · have := (f2.2 _ hx).1; simp [LKind.ctr, GState.ctr, Lbl.idx] at this; omega

/-- a label allocated at or before `gx` is not defined by code generated from `gx` on -/
theorem not_in_fresh {gx : GState} {r : List GLine × GState} {l : Lbl} (hf : Fresh gx r)
    (hl : l.idx ≤ gx.ctr l.kind.ctr) : l ∉ labels r.1 := by
  intro h
  have := (hf.2 l h).1
  omega

theorem le_ctr {g : GState} {r : List GLine × GState} (h : Fresh g r) (c : Ctr) : g.ctr c ≤ r.2.ctr c := h.1 c

/-- the labels defined by the code of a statement are pairwise distinct -/
theorem gen_labels_nodup (st : SStmt) : ∀ (lp : LoopCtx) (g : GState), (labels (gen lp g st).1).Nodup := by
  induction st with
  | flat s => intro lp g; simp [gen, genFlat, labels_flatLines]
  | skip => intro lp g; simp [gen]
  | forget => intro lp g; simp [gen]
  | brk => intro lp g; cases lp <;> simp [gen]
  | cont => intro lp g; cases lp <;> simp [gen]
  | ifBrk c => intro lp g; cases lp with
    | none => simp [gen]
    | some p => simpa [gen] using genCond_nodup c { g with cIf := g.cIf + 1 } false p.2
  | ifCont c => intro lp g; cases lp with
    | none => simp [gen]
    | some p => simpa [gen] using genCond_nodup c { g with cIf := g.cIf + 1 } false p.1
  | seq a b iha ihb =>
    intro lp g
    simp only [gen]
    exact nodup_two (gen_fresh a lp g) (gen_fresh b lp _) (iha lp g) (ihb lp _)
  | ifThen c t iht =>
    intro lp g
    simp only [gen]
    rcases hcc : genCond { g with cIf := g.cIf + 1 } c true ⟨.ifend, g.cIf + 1⟩ with ⟨cc, g1⟩
    rcases hct : gen lp g1 t with ⟨ct, g2⟩
    have hc : Fresh { g with cIf := g.cIf + 1 } (cc, g1) := hcc ▸ genCond_fresh ..
    have ht : Fresh g1 (ct, g2) := hct ▸ gen_fresh t lp g1
    have nc : (labels cc).Nodup := by have := genCond_nodup c { g with cIf := g.cIf + 1 } true ⟨.ifend, g.cIf + 1⟩; rwa [hcc] at this
    have nt : (labels ct).Nodup := by have := iht lp g1; rwa [hct] at this
    have h2 := nodup_two hc ht nc nt
    have k1 := le_ctr hc .cIf
    simp [GState.ctr] at k1
    dsimp only at h2 ⊢
    rw [labels_append, List.nodup_append]
    refine ⟨h2, by simp, ?_⟩
    intro a ha b hb hab
    simp at hb
    subst hab; subst hb
    simp at ha
    rcases ha with ha | ha
    · exact not_in_fresh hc (by simp [LKind.ctr, GState.ctr, Lbl.idx]) ha
    · exact not_in_fresh ht (by simp [LKind.ctr, GState.ctr, Lbl.idx]; omega) ha
  | ifElse c t e iht ihe =>
    intro lp g
    simp only [gen]
    rcases hcc : genCond { g with cIf := g.cIf + 1 } c true ⟨.else_, g.cIf + 1⟩ with ⟨cc, g1⟩
    rcases hct : gen lp g1 t with ⟨ct, g2⟩
    rcases hce : gen lp { g2 with flags := if c.singleExit then g1.flags else none } e with ⟨ce, g3⟩
    have hc : Fresh { g with cIf := g.cIf + 1 } (cc, g1) := hcc ▸ genCond_fresh ..
    have ht : Fresh g1 (ct, g2) := hct ▸ gen_fresh t lp g1
    have he : Fresh g2 (ce, g3) := by
      have := gen_fresh e lp { g2 with flags := if c.singleExit then g1.flags else none }
      rw [hce, fresh_flags_left] at this
      exact this
    have nc : (labels cc).Nodup := by have := genCond_nodup c { g with cIf := g.cIf + 1 } true ⟨.else_, g.cIf + 1⟩; rwa [hcc] at this
    have nt : (labels ct).Nodup := by have := iht lp g1; rwa [hct] at this
    have ne : (labels ce).Nodup := by have := ihe lp { g2 with flags := if c.singleExit then g1.flags else none }; rwa [hce] at this
    have k1 := le_ctr hc .cIf
    have k2 := le_ctr ht .cIf
    simp [GState.ctr] at k1 k2
    have h3 : (labels (cc ++ ct ++ ce)).Nodup := nodup_two (fresh_append hc ht) he (nodup_two hc ht nc nt) ne
    dsimp only at h3 ⊢
    -- the two own labels are distinct from each other and from everything generated inside
    have key : ∀ l : Lbl, l.idx = g.cIf + 1 → l.kind.ctr = .cIf → l ∉ labels (cc ++ ct ++ ce) := by
      intro l hn hk hin
      simp at hin
      rcases hin with hin | hin | hin
      · exact not_in_fresh hc (by simp [hk, hn, GState.ctr]) hin
      · exact not_in_fresh ht (by simp [hk, hn, GState.ctr]; omega) hin
      · exact not_in_fresh he (by simp [hk, hn, GState.ctr]; omega) hin
    have hperm : (labels (cc ++ ct ++ [GLine.jmp ⟨.ifend, g.cIf + 1⟩, .lab ⟨.else_, g.cIf + 1⟩] ++ ce ++ [.lab ⟨.ifend, g.cIf + 1⟩])).Perm
        ((⟨.else_, g.cIf + 1⟩ : Lbl) :: ⟨.ifend, g.cIf + 1⟩ :: labels (cc ++ ct ++ ce)) := by
      simp only [labels_append, labels_jmp, labels_lab, labels_nil]
      have : ∀ (A B C : List Lbl) (x y : Lbl), (A ++ B ++ [x] ++ C ++ [y]).Perm (x :: y :: (A ++ B ++ C)) := by
        intro A B C x y
        have e1 : A ++ B ++ [x] ++ C ++ [y] = (A ++ B) ++ (x :: (C ++ [y])) := by simp
        rw [e1]
        refine (List.perm_middle).trans ?_
        refine List.Perm.cons x ?_
        have e2 : A ++ B ++ (C ++ [y]) = (A ++ B ++ C) ++ [y] := by simp
        rw [e2]
        exact List.perm_append_singleton y _
      exact this _ _ _ _ _
    rw [hperm.nodup_iff]
    refine List.nodup_cons.mpr ⟨?_, List.nodup_cons.mpr ⟨key _ rfl rfl, h3⟩⟩
    intro hin
    simp only [List.mem_cons] at hin
    rcases hin with hin | hin
    · simp at hin
    · exact key _ rfl rfl hin
  | «while» c b ihb =>
    intro lp g
    simp only [gen]
    rcases hcc : genCond { g with cWhile := g.cWhile + 1, flags := none } c true ⟨.whileend, g.cWhile + 1⟩ with ⟨cc, g1⟩
    rcases hcb : gen (some (⟨.while_, g.cWhile + 1⟩, ⟨.whileend, g.cWhile + 1⟩)) g1 b with ⟨cb, g2⟩
    have hc : Fresh { g with cWhile := g.cWhile + 1, flags := none } (cc, g1) := hcc ▸ genCond_fresh ..
    have hb : Fresh g1 (cb, g2) := hcb ▸ gen_fresh b _ g1
    have nc : (labels cc).Nodup := by
      have := genCond_nodup c { g with cWhile := g.cWhile + 1, flags := none } true ⟨.whileend, g.cWhile + 1⟩; rwa [hcc] at this
    have nb : (labels cb).Nodup := by have := ihb (some (⟨.while_, g.cWhile + 1⟩, ⟨.whileend, g.cWhile + 1⟩)) g1; rwa [hcb] at this
    have k1 := le_ctr hc .cWhile
    simp [GState.ctr] at k1
    have h2 : (labels (cc ++ cb)).Nodup := nodup_two hc hb nc nb
    dsimp only at h2 ⊢
    have key : ∀ l : Lbl, l.idx = g.cWhile + 1 → l.kind.ctr = .cWhile → l ∉ labels (cc ++ cb) := by
      intro l hn hk hin
      simp at hin
      rcases hin with hin | hin
      · exact not_in_fresh hc (by simp [hk, hn, GState.ctr]) hin
      · exact not_in_fresh hb (by simp [hk, hn, GState.ctr]; omega) hin
    have hperm : (labels ([GLine.lab ⟨.while_, g.cWhile + 1⟩] ++ cc ++ cb ++ [GLine.jmp ⟨.while_, g.cWhile + 1⟩, .lab ⟨.whileend, g.cWhile + 1⟩])).Perm
        ((⟨.while_, g.cWhile + 1⟩ : Lbl) :: ⟨.whileend, g.cWhile + 1⟩ :: labels (cc ++ cb)) := by
      simp only [labels_append, labels_jmp, labels_lab, labels_nil, List.singleton_append, List.cons_append, List.nil_append]
      refine List.Perm.cons _ ?_
      have e2 : labels cc ++ labels cb ++ [(⟨.whileend, g.cWhile + 1⟩ : Lbl)] = (labels cc ++ labels cb) ++ [⟨.whileend, g.cWhile + 1⟩] := rfl
      rw [e2]
      exact List.perm_append_singleton _ _
    rw [hperm.nodup_iff]
    refine List.nodup_cons.mpr ⟨?_, List.nodup_cons.mpr ⟨key _ rfl rfl, h2⟩⟩
    intro hin
    simp only [List.mem_cons] at hin
    rcases hin with hin | hin
    · simp at hin
    · exact key _ rfl rfl hin
  | doWhile b c ihb =>
    intro lp g
    simp only [gen]
    rcases hcb : gen (some (⟨.dowhilecondition, g.cWhile + 1⟩, ⟨.dowhileend, g.cWhile + 1⟩)) { g with cWhile := g.cWhile + 1, flags := none } b with ⟨cb, g1⟩
    rcases hcc : genCond (if contHere b then { g1 with flags := none } else g1) c false ⟨.dowhile, g.cWhile + 1⟩ with ⟨cc, g2⟩
    have hb : Fresh { g with cWhile := g.cWhile + 1, flags := none } (cb, g1) := hcb ▸ gen_fresh b _ _
    have hc : Fresh g1 (cc, g2) := by
      have : Fresh (if contHere b then { g1 with flags := none } else g1) (cc, g2) := hcc ▸ genCond_fresh ..
      by_cases hcn : contHere b = true
      · simp only [hcn, if_true] at this; rwa [fresh_flags_left] at this
      · simpa [hcn] using this
    have nb : (labels cb).Nodup := by have := ihb (some (⟨.dowhilecondition, g.cWhile + 1⟩, ⟨.dowhileend, g.cWhile + 1⟩)) { g with cWhile := g.cWhile + 1, flags := none }; rwa [hcb] at this
    have nc : (labels cc).Nodup := by have := genCond_nodup c (if contHere b then { g1 with flags := none } else g1) false ⟨.dowhile, g.cWhile + 1⟩; rwa [hcc] at this
    have k1 := le_ctr hb .cWhile
    simp [GState.ctr] at k1
    have h2 : (labels (cb ++ cc)).Nodup := nodup_two hb hc nb nc
    dsimp only at h2 ⊢
    have key : ∀ l : Lbl, l.idx = g.cWhile + 1 → l.kind.ctr = .cWhile → l ∉ labels (cb ++ cc) := by
      intro l hn hk hin
      simp at hin
      rcases hin with hin | hin
      · exact not_in_fresh hb (by simp [hk, hn, GState.ctr]) hin
      · exact not_in_fresh hc (by simp [hk, hn, GState.ctr]; omega) hin
    by_cases hcn : contHere b = true
    · simp only [hcn, if_true]
      have hperm : (labels ([GLine.lab ⟨.dowhile, g.cWhile + 1⟩] ++ cb ++ [GLine.lab ⟨.dowhilecondition, g.cWhile + 1⟩] ++ cc ++ [GLine.lab ⟨.dowhileend, g.cWhile + 1⟩])).Perm
          ((⟨.dowhile, g.cWhile + 1⟩ : Lbl) :: ⟨.dowhileend, g.cWhile + 1⟩ :: ⟨.dowhilecondition, g.cWhile + 1⟩ :: labels (cb ++ cc)) := by
        simp only [labels_append, labels_lab, labels_nil, List.singleton_append, List.cons_append, List.nil_append]
        refine List.Perm.cons _ ?_
        refine (List.perm_append_singleton _ _).trans (List.Perm.cons _ ?_)
        have e1 : labels cb ++ [(⟨.dowhilecondition, g.cWhile + 1⟩ : Lbl)] ++ labels cc
            = labels cb ++ (⟨.dowhilecondition, g.cWhile + 1⟩ : Lbl) :: labels cc := by simp
        rw [e1]
        exact List.perm_middle
      rw [hperm.nodup_iff]
      refine List.nodup_cons.mpr ⟨?_, List.nodup_cons.mpr ⟨?_, List.nodup_cons.mpr ⟨key _ rfl rfl, h2⟩⟩⟩
      · intro hin
        simp only [List.mem_cons] at hin
        rcases hin with hin | hin | hin
        · simp at hin
        · simp at hin
        · exact key _ rfl rfl hin
      · intro hin
        simp only [List.mem_cons] at hin
        rcases hin with hin | hin
        · simp at hin
        · exact key _ rfl rfl hin
    · simp only [hcn, Bool.false_eq_true, if_false, List.append_nil]
      have hperm : (labels ([GLine.lab ⟨.dowhile, g.cWhile + 1⟩] ++ cb ++ cc ++ [GLine.lab ⟨.dowhileend, g.cWhile + 1⟩])).Perm
          ((⟨.dowhile, g.cWhile + 1⟩ : Lbl) :: ⟨.dowhileend, g.cWhile + 1⟩ :: labels (cb ++ cc)) := by
        simp only [labels_append, labels_lab, labels_nil, List.singleton_append, List.cons_append, List.nil_append]
        refine List.Perm.cons _ ?_
        exact List.perm_append_singleton _ _
      rw [hperm.nodup_iff]
      refine List.nodup_cons.mpr ⟨?_, List.nodup_cons.mpr ⟨key _ rfl rfl, h2⟩⟩
      intro hin
      simp only [List.mem_cons] at hin
      rcases hin with hin | hin
      · simp at hin
      · exact key _ rfl rfl hin
  | «for» i c u b ihb =>
    intro lp g
    simp only [gen, genFlat]
    rcases hc1 : genCond { g with cFor := g.cFor + 1, flags := flagsAfter (zpL g.abs) g.flags i } c true ⟨.forend, g.cFor + 1⟩ with ⟨c1, g2⟩
    rcases hcb : gen (some (⟨.forupdate, g.cFor + 1⟩, ⟨.forend, g.cFor + 1⟩)) { g2 with flags := none } b with ⟨cb, g3⟩
    rcases hc2 : genCond { g3 with flags := flagsAfter (zpL g3.abs) none u } c false ⟨.for_, g.cFor + 1⟩ with ⟨c2, g5⟩
    have hf1 : Fresh { g with cFor := g.cFor + 1, flags := flagsAfter (zpL g.abs) g.flags i } (c1, g2) := hc1 ▸ genCond_fresh ..
    have hfb : Fresh g2 (cb, g3) := by
      have := gen_fresh b (some (⟨.forupdate, g.cFor + 1⟩, ⟨.forend, g.cFor + 1⟩)) { g2 with flags := none }
      rw [hcb, fresh_flags_left] at this
      exact this
    have hf2 : Fresh g3 (c2, g5) := by
      have : Fresh { g3 with flags := flagsAfter (zpL g3.abs) none u } (c2, g5) := hc2 ▸ genCond_fresh ..
      rwa [fresh_flags_left] at this
    have n1 : (labels c1).Nodup := by
      have := genCond_nodup c { g with cFor := g.cFor + 1, flags := flagsAfter (zpL g.abs) g.flags i } true ⟨.forend, g.cFor + 1⟩; rwa [hc1] at this
    have nb : (labels cb).Nodup := by have := ihb (some (⟨.forupdate, g.cFor + 1⟩, ⟨.forend, g.cFor + 1⟩)) { g2 with flags := none }; rwa [hcb] at this
    have n2 : (labels c2).Nodup := by
      have := genCond_nodup c { g3 with flags := flagsAfter (zpL g3.abs) none u } false ⟨.for_, g.cFor + 1⟩; rwa [hc2] at this
    have k1 := le_ctr hf1 .cFor
    have k2 := le_ctr hfb .cFor
    simp [GState.ctr] at k1 k2
    have h3 : (labels (c1 ++ cb ++ c2)).Nodup := nodup_two (fresh_append hf1 hfb) hf2 (nodup_two hf1 hfb n1 nb) n2
    dsimp only at h3 ⊢
    have key : ∀ l : Lbl, l.idx = g.cFor + 1 → l.kind.ctr = .cFor → l ∉ labels (c1 ++ cb ++ c2) := by
      intro l hn hk hin
      simp at hin
      rcases hin with hin | hin | hin
      · exact not_in_fresh hf1 (by simp [hk, hn, GState.ctr]) hin
      · exact not_in_fresh hfb (by simp [hk, hn, GState.ctr]; omega) hin
      · exact not_in_fresh hf2 (by simp [hk, hn, GState.ctr]; omega) hin
    have hperm : (labels (flatLines (zpL g.abs) i ++ c1 ++ [GLine.lab ⟨.for_, g.cFor + 1⟩] ++ cb ++ [GLine.lab ⟨.forupdate, g.cFor + 1⟩] ++ flatLines (zpL g3.abs) u ++ c2
          ++ [GLine.lab ⟨.forend, g.cFor + 1⟩])).Perm
        ((⟨.for_, g.cFor + 1⟩ : Lbl) :: ⟨.forupdate, g.cFor + 1⟩ :: ⟨.forend, g.cFor + 1⟩ :: labels (c1 ++ cb ++ c2)) := by
      simp only [labels_append, labels_lab, labels_nil, labels_flatLines, List.nil_append, List.append_nil]
      have : ∀ (A B C : List Lbl) (x y z : Lbl), (A ++ [x] ++ B ++ [y] ++ C ++ [z]).Perm (x :: y :: z :: (A ++ B ++ C)) := by
        intro A B C x y z
        have e1 : A ++ [x] ++ B ++ [y] ++ C ++ [z] = A ++ (x :: (B ++ [y] ++ C ++ [z])) := by simp
        rw [e1]
        refine (List.perm_middle).trans (List.Perm.cons x ?_)
        have e2 : A ++ (B ++ [y] ++ C ++ [z]) = (A ++ B) ++ (y :: (C ++ [z])) := by simp
        rw [e2]
        refine (List.perm_middle).trans (List.Perm.cons y ?_)
        have e3 : A ++ B ++ (C ++ [z]) = (A ++ B ++ C) ++ [z] := by simp
        rw [e3]
        exact List.perm_append_singleton z _
      exact this _ _ _ _ _ _
    rw [hperm.nodup_iff]
    refine List.nodup_cons.mpr ⟨?_, List.nodup_cons.mpr ⟨?_, List.nodup_cons.mpr ⟨key _ rfl rfl, h3⟩⟩⟩
    · intro hin
      simp only [List.mem_cons] at hin
      rcases hin with hin | hin | hin
      · simp at hin
      · simp at hin
      · exact key _ rfl rfl hin
    · intro hin
      simp only [List.mem_cons] at hin
      rcases hin with hin | hin
      · simp at hin
      · exact key _ rfl rfl hin

end CV.C13

namespace CV.C13
open CV CV.GenStruct CV.GenFlat CV.GenReg

/-- as text: no two label lines of a statement's code carry the same label -/
theorem gen_label_texts_nodup (st : SStmt) (lp : LoopCtx) (g : GState) : ((labels (gen lp g st).1).map Lbl.text).Nodup := by
  have h := gen_labels_nodup st lp g
  unfold List.Nodup at h ⊢
  exact List.Pairwise.map Lbl.text (fun a b hab e => hab (label_text_injective a b e)) h

/-! ### every branch of the generated code has its target in the generated code -/

def targets : List GLine → List Lbl
  | [] => []
  | .br _ l :: r => l :: targets r
  | .jmp l :: r => l :: targets r
  | _ :: r => targets r

@[simp] theorem targets_nil : targets [] = [] := rfl
@[simp] theorem targets_lab (l : Lbl) (r : List GLine) : targets (.lab l :: r) = targets r := rfl
@[simp] theorem targets_ins (mn : Mn) (a : Option Atom) (r : List GLine) : targets (.ins mn a :: r) = targets r := rfl
@[simp] theorem targets_br (mn : Mn) (l : Lbl) (r : List GLine) : targets (.br mn l :: r) = l :: targets r := rfl
@[simp] theorem targets_jmp (l : Lbl) (r : List GLine) : targets (.jmp l :: r) = l :: targets r := rfl

@[simp] theorem targets_append (p q : List GLine) : targets (p ++ q) = targets p ++ targets q := by
  induction p with
  | nil => rfl
  | cons x xs ih => cases x <;> simp [targets, ih]

theorem targets_flatLines (zp : String → Bool) (s : RStmt) : targets (flatLines zp s) = [] := by
  unfold flatLines
  generalize rtemplate (none : Option Atom) (fun a => some a) zp s = t
  induction t with
  | nil => rfl
  | cons x xs ih => simpa using ih

/-- condition code only branches to the label it was given or to a label it defines itself -/
theorem genCond_targets (c : Cond) : ∀ (g : GState) (negate : Bool) (label : Lbl),
    ∀ l ∈ targets (genCond g c negate label).1, l = label ∨ l ∈ labels (genCond g c negate label).1 := by
  have hb : ∀ g' op label, ∀ l ∈ targets (branchInstr g' op label).1, l = label ∨ l ∈ labels (branchInstr g' op label).1 := by
    intro g' op label l hl
    cases op <;> simp [branchInstr] at hl ⊢ <;> (try exact hl)
    rcases hl with hl | hl
    · exact Or.inr hl
    · exact Or.inl hl
  have hz : ∀ g v op label, ∀ l ∈ targets (zeroTest g v op label).1, l = label ∨ l ∈ labels (zeroTest g v op label).1 := by
    intro g v op label l hl
    have htl : targets (loadRef v) = [] := rfl
    unfold zeroTest at hl ⊢
    by_cases h : g.flags = some v <;> cases op <;> simp [h, htl, labels_loadRef] at hl ⊢ <;> exact hl
  have hc : ∀ g v right op label, ∀ l ∈ targets (cmpTest g v right op label).1, l = label ∨ l ∈ labels (cmpTest g v right op label).1 := by
    intro g v right op label l hl
    have hp : labels (cmpPre v right) = [] := labels_cmpPre v right
    have ht : targets (cmpPre v right) = [] := by
      cases v <;> first | rfl | (cases right <;> first | rfl | (rename_i i; cases i <;> rfl))
    simp [cmpTest, hp, ht] at hl ⊢
    exact hb _ _ _ l hl
  induction c with
  | cmp op a b =>
    intro g negate label
    simp only [genCond, genCondEx]
    split
    · intro l hl; simp at hl
    · split
      · exact hz _ _ _ _
      · exact hc _ _ _ _ _
    · split
      · exact hz _ _ _ _
      · exact hc _ _ _ _ _
    · intro l hl; simp at hl
    · split
      · exact hz _ _ _ _
      · exact hc _ _ _ _ _
    · split
      · exact hz _ _ _ _
      · exact hc _ _ _ _ _
    · intro l hl; simp at hl
  | truth v => intro g negate label; exact hz _ _ _ _
  | nottruth v => intro g negate label; exact hz _ _ _ _
  | not c ih => intro g negate label; simp only [genCond]; exact ih g (!negate) label
  | cmpE op e b eLeft =>
    intro g negate label l hl
    have htt : targets (treeLines e) = [] := by
      unfold treeLines
      generalize treeOps e = t
      induction t with
      | nil => rfl
      | cons x xs ih => simpa [targets] using ih
    simp only [genCond, cmpETest] at hl ⊢
    split at hl
    · rename_i hz0
      simp only [hz0, if_true]
      split at hl <;> rename_i hop <;> simp [hop, htt, targets, labels_treeLines] at hl ⊢ <;> exact hl
    · rename_i hz0
      simp only [hz0, if_false, Bool.false_eq_true]
      simp [htt, targets, labels_treeLines] at hl ⊢
      exact hb _ _ _ l hl
  | truthE e =>
    intro g negate label l hl
    have htt : targets (treeLines e) = [] := by
      unfold treeLines
      generalize treeOps e = t
      induction t with
      | nil => rfl
      | cons x xs ih => simpa [targets] using ih
    simp only [genCond, truthETest] at hl ⊢
    by_cases h : e.topArithm = true <;> simp [htt, targets, labels_treeLines, h] at hl ⊢ <;> exact hl
  | cmpR op e y eLeft =>
    intro g negate label l hl
    have htt : targets (treeLines e) = [] := by
      unfold treeLines
      generalize treeOps e = t
      induction t with
      | nil => rfl
      | cons x xs ih => simpa [targets] using ih
    simp only [genCond, cmpRTest] at hl ⊢
    simp [htt, targets, labels_treeLines] at hl ⊢
    exact hb _ _ _ l hl
  | wcmp ne s w =>
    intro g negate label l hl
    have htt : ∀ ops : List (Mn × Option Atom), targets (ops.map fun p => GLine.ins p.1 p.2) = [] := by
      intro ops
      induction ops with
      | nil => rfl
      | cons x xs ih => simpa [targets] using ih
    simp only [genCond, wcmpTest] at hl ⊢
    split at hl
    · rename_i hf
      simp only [hf, if_true]
      simp [htt, targets, labels_insLines] at hl ⊢
      exact hl
    · rename_i hf
      simp only [hf, if_false, Bool.false_eq_true]
      simp [htt, targets, labels_insLines] at hl ⊢
      rcases hl with hl | hl
      · exact Or.inr hl
      · exact Or.inl hl
  | and a b iha ihb =>
    intro g negate label l hl
    cases negate with
    | true =>
      simp only [genCond, targets_append, labels_append, List.mem_append] at hl ⊢
      rcases hl with hl | hl
      · rcases iha _ _ _ l hl with h | h
        · exact Or.inl h
        · exact Or.inr (Or.inl h)
      · rcases ihb _ _ _ l hl with h | h
        · exact Or.inl h
        · exact Or.inr (Or.inr h)
    | false =>
      simp only [genCond] at hl ⊢
      simp at hl ⊢
      rcases hl with hl | hl
      · rcases iha _ _ _ l hl with h | h
        · exact Or.inr (Or.inr (Or.inr h))
        · exact Or.inr (Or.inl h)
      · rcases ihb _ _ _ l hl with h | h
        · exact Or.inl h
        · exact Or.inr (Or.inr (Or.inl h))
  | or a b iha ihb =>
    intro g negate label l hl
    cases negate with
    | false =>
      simp only [genCond, targets_append, labels_append, List.mem_append] at hl ⊢
      rcases hl with hl | hl
      · rcases iha _ _ _ l hl with h | h
        · exact Or.inl h
        · exact Or.inr (Or.inl h)
      · rcases ihb _ _ _ l hl with h | h
        · exact Or.inl h
        · exact Or.inr (Or.inr h)
    | true =>
      simp only [genCond] at hl ⊢
      simp at hl ⊢
      rcases hl with hl | hl
      · rcases iha _ _ _ l hl with h | h
        · exact Or.inr (Or.inr (Or.inr h))
        · exact Or.inr (Or.inl h)
      · rcases ihb _ _ _ l hl with h | h
        · exact Or.inl h
        · exact Or.inr (Or.inr (Or.inl h))

/-- the labels a statement may jump to outside its own code: the break label of the enclosing loop, and its
    continue label when the statement contains a `continue` of that loop -/
def extTargets (lp : LoopCtx) (needC : Bool) : List Lbl :=
  match lp with
  | none => []
  | some (cl, bl) => bl :: (if needC then [cl] else [])

theorem extTargets_mono (lp : LoopCtx) {n n' : Bool} (h : n = true → n' = true) (l : Lbl) (hl : l ∈ extTargets lp n) :
    l ∈ extTargets lp n' := by
  cases lp with
  | none => simpa [extTargets] using hl
  | some p =>
    obtain ⟨cl, bl⟩ := p
    simp only [extTargets, List.mem_cons] at hl ⊢
    rcases hl with hl | hl
    · exact Or.inl hl
    · right
      cases hn : n with
      | false => simp [hn] at hl
      | true => simp [hn] at hl; simp [h hn, hl]

@[simp] theorem targets_jmp_single (l : Lbl) : targets [GLine.jmp l] = [l] := rfl

/-- every branch or jump of a statement's code goes to a label defined in that code, or to a label of the
    enclosing loop -/
theorem gen_targets (st : SStmt) : ∀ (lp : LoopCtx) (g : GState),
    ∀ l ∈ targets (gen lp g st).1, l ∈ labels (gen lp g st).1 ∨ l ∈ extTargets lp (contHere st) := by
  induction st with
  | flat s => intro lp g l hl; simp [gen, genFlat, targets_flatLines] at hl
  | skip => intro lp g l hl; simp [gen] at hl
  | forget => intro lp g l hl; simp [gen] at hl
  | brk =>
    intro lp g l hl
    cases lp with
    | none => simp [gen] at hl
    | some p => obtain ⟨cl, bl⟩ := p; simp [gen] at hl; subst hl; right; simp [extTargets]
  | cont =>
    intro lp g l hl
    cases lp with
    | none => simp [gen] at hl
    | some p => obtain ⟨cl, bl⟩ := p; simp [gen] at hl; subst hl; right; simp [extTargets, contHere]
  | ifBrk c =>
    intro lp g l hl
    cases lp with
    | none => simp [gen] at hl
    | some p =>
      obtain ⟨cl, bl⟩ := p
      simp only [gen] at hl ⊢
      rcases genCond_targets c { g with cIf := g.cIf + 1 } false bl l hl with h | h
      · right; simp [extTargets, h]
      · exact Or.inl h
  | ifCont c =>
    intro lp g l hl
    cases lp with
    | none => simp [gen] at hl
    | some p =>
      obtain ⟨cl, bl⟩ := p
      simp only [gen] at hl ⊢
      rcases genCond_targets c { g with cIf := g.cIf + 1 } false cl l hl with h | h
      · right; simp [extTargets, contHere, h]
      · exact Or.inl h
  | seq a b iha ihb =>
    intro lp g l hl
    simp only [gen, targets_append, labels_append, List.mem_append] at hl ⊢
    rcases hl with hl | hl
    · rcases iha lp g l hl with h | h
      · exact Or.inl (Or.inl h)
      · exact Or.inr (extTargets_mono lp (by simp [contHere]; intro e; exact Or.inl e) l h)
    · rcases ihb lp _ l hl with h | h
      · exact Or.inl (Or.inr h)
      · exact Or.inr (extTargets_mono lp (by simp [contHere]; intro e; exact Or.inr e) l h)
  | ifThen c t iht =>
    intro lp g l hl
    simp only [gen] at hl ⊢
    have hc := genCond_targets c { g with cIf := g.cIf + 1 } true ⟨.ifend, g.cIf + 1⟩
    rcases hcc : genCond { g with cIf := g.cIf + 1 } c true ⟨.ifend, g.cIf + 1⟩ with ⟨cc, g1⟩
    rw [hcc] at hc hl
    have ht := iht lp g1
    rcases hct : gen lp g1 t with ⟨ct, g2⟩
    rw [hct] at ht hl
    simp at hl ⊢
    rcases hl with hl | hl
    · rcases hc l hl with h | h
      · exact Or.inl (Or.inr (Or.inr h))
      · exact Or.inl (Or.inl h)
    · rcases ht l hl with h | h
      · exact Or.inl (Or.inr (Or.inl h))
      · exact Or.inr (by simpa [contHere] using h)
  | ifElse c t e iht ihe =>
    intro lp g l hl
    simp only [gen] at hl ⊢
    have hc := genCond_targets c { g with cIf := g.cIf + 1 } true ⟨.else_, g.cIf + 1⟩
    rcases hcc : genCond { g with cIf := g.cIf + 1 } c true ⟨.else_, g.cIf + 1⟩ with ⟨cc, g1⟩
    rw [hcc] at hc hl
    have ht := iht lp g1
    rcases hct : gen lp g1 t with ⟨ct, g2⟩
    rw [hct] at ht hl
    have he := ihe lp { g2 with flags := if c.singleExit then g1.flags else none }
    rcases hce : gen lp { g2 with flags := if c.singleExit then g1.flags else none } e with ⟨ce, g3⟩
    rw [hce] at he hl
    simp at hl ⊢
    rcases hl with hl | hl | hl | hl
    · rcases hc l hl with h | h
      · exact Or.inl (Or.inr (Or.inr (Or.inl h)))
      · exact Or.inl (Or.inl h)
    · rcases ht l hl with h | h
      · exact Or.inl (Or.inr (Or.inl h))
      · exact Or.inr (extTargets_mono lp (by simp [contHere]; intro e; exact Or.inl e) l h)
    · exact Or.inl (Or.inr (Or.inr (Or.inr (Or.inr hl))))
    · rcases he l hl with h | h
      · exact Or.inl (Or.inr (Or.inr (Or.inr (Or.inl h))))
      · exact Or.inr (extTargets_mono lp (by simp [contHere]; intro e; exact Or.inr e) l h)
  | «while» c b ihb =>
    intro lp g l hl
    left
    simp only [gen] at hl ⊢
    have hc := genCond_targets c { g with cWhile := g.cWhile + 1, flags := none } true ⟨.whileend, g.cWhile + 1⟩
    rcases hcc : genCond { g with cWhile := g.cWhile + 1, flags := none } c true ⟨.whileend, g.cWhile + 1⟩ with ⟨cc, g1⟩
    rw [hcc] at hc hl
    have hb := ihb (some (⟨.while_, g.cWhile + 1⟩, ⟨.whileend, g.cWhile + 1⟩)) g1
    rcases hcb : gen (some (⟨.while_, g.cWhile + 1⟩, ⟨.whileend, g.cWhile + 1⟩)) g1 b with ⟨cb, g2⟩
    rw [hcb] at hb hl
    simp at hl ⊢
    rcases hl with hl | hl | hl
    · rcases hc l hl with h | h
      · exact Or.inr (Or.inr (Or.inr h))
      · exact Or.inr (Or.inl h)
    · rcases hb l hl with h | h
      · exact Or.inr (Or.inr (Or.inl h))
      · simp only [extTargets, List.mem_cons] at h
        rcases h with h | h
        · exact Or.inr (Or.inr (Or.inr h))
        · split at h
          · simp at h; exact Or.inl h
          · simp at h
    · exact Or.inl hl
  | doWhile b c ihb =>
    intro lp g l hl
    left
    simp only [gen] at hl ⊢
    have hb := ihb (some (⟨.dowhilecondition, g.cWhile + 1⟩, ⟨.dowhileend, g.cWhile + 1⟩)) { g with cWhile := g.cWhile + 1, flags := none }
    rcases hcb : gen (some (⟨.dowhilecondition, g.cWhile + 1⟩, ⟨.dowhileend, g.cWhile + 1⟩)) { g with cWhile := g.cWhile + 1, flags := none } b with ⟨cb, g1⟩
    rw [hcb] at hb hl
    have hc := genCond_targets c (if contHere b then { g1 with flags := none } else g1) false ⟨.dowhile, g.cWhile + 1⟩
    rcases hcc : genCond (if contHere b then { g1 with flags := none } else g1) c false ⟨.dowhile, g.cWhile + 1⟩ with ⟨cc, g2⟩
    rw [hcc] at hc hl
    by_cases hcn : contHere b = true
    · simp [hcn] at hl ⊢
      rcases hl with hl | hl
      · rcases hb l hl with h | h
        · exact Or.inr (Or.inl h)
        · simp only [extTargets, hcn, if_true, List.mem_cons, List.mem_singleton, List.not_mem_nil, or_false] at h
          rcases h with h | h
          · exact Or.inr (Or.inr (Or.inr (Or.inr h)))
          · exact Or.inr (Or.inr (Or.inl h))
      · rcases hc l hl with h | h
        · exact Or.inl h
        · exact Or.inr (Or.inr (Or.inr (Or.inl h)))
    · simp [hcn] at hl ⊢
      rcases hl with hl | hl
      · rcases hb l hl with h | h
        · exact Or.inr (Or.inl h)
        · simp [extTargets, hcn] at h
          exact Or.inr (Or.inr (Or.inr h))
      · rcases hc l hl with h | h
        · exact Or.inl h
        · exact Or.inr (Or.inr (Or.inl h))
  | «for» i c u b ihb =>
    intro lp g l hl
    left
    simp only [gen, genFlat] at hl ⊢
    have h1 := genCond_targets c { g with cFor := g.cFor + 1, flags := flagsAfter (zpL g.abs) g.flags i } true ⟨.forend, g.cFor + 1⟩
    rcases hc1 : genCond { g with cFor := g.cFor + 1, flags := flagsAfter (zpL g.abs) g.flags i } c true ⟨.forend, g.cFor + 1⟩ with ⟨c1, g2⟩
    rw [hc1] at h1 hl
    have hb := ihb (some (⟨.forupdate, g.cFor + 1⟩, ⟨.forend, g.cFor + 1⟩)) { g2 with flags := none }
    rcases hcb : gen (some (⟨.forupdate, g.cFor + 1⟩, ⟨.forend, g.cFor + 1⟩)) { g2 with flags := none } b with ⟨cb, g3⟩
    rw [hcb] at hb hl
    have h2 := genCond_targets c { g3 with flags := flagsAfter (zpL g3.abs) none u } false ⟨.for_, g.cFor + 1⟩
    rcases hc2 : genCond { g3 with flags := flagsAfter (zpL g3.abs) none u } c false ⟨.for_, g.cFor + 1⟩ with ⟨c2, g5⟩
    rw [hc2] at h2 hl
    simp [targets_flatLines, labels_flatLines] at hl ⊢
    rcases hl with hl | hl | hl
    · rcases h1 l hl with h | h
      · exact Or.inr (Or.inr (Or.inr (Or.inr (Or.inr h))))
      · exact Or.inl h
    · rcases hb l hl with h | h
      · exact Or.inr (Or.inr (Or.inl h))
      · simp only [extTargets, List.mem_cons] at h
        rcases h with h | h
        · exact Or.inr (Or.inr (Or.inr (Or.inr (Or.inr h))))
        · split at h
          · simp at h; exact Or.inr (Or.inr (Or.inr (Or.inl h)))
          · simp at h
    · rcases h2 l hl with h | h
      · exact Or.inr (Or.inl h)
      · exact Or.inr (Or.inr (Or.inr (Or.inr (Or.inl h))))

/-- no branch or jump of a function body leaves the code: every target is a label defined in it (a `break` or
    `continue` inside a loop of the body goes to that loop's labels; outside every loop none is generated) -/
theorem gen_targets_defined (st : SStmt) (g : GState) : ∀ l ∈ targets (gen none g st).1, l ∈ labels (gen none g st).1 := by
  intro l hl
  rcases gen_targets st none g l hl with h | h
  · exact h
  · simp [extTargets] at h

end CV.C13
