/-
  Property C13 — emitted assembly always assembles.
  Models: CV.AsmSel (modes), CV.Inline (label renaming on inline expansion), CV.Branch (.fix labels).

  Proved here, for all labels / counters / line vectors:
   * `rename_injective`      : (l, n) ↦ l ++ "inline" ++ n is injective (different counters never
                               produce the same label, whatever the labels)
   * `push_labels_nodup`     : expanding a callee with unique labels into a caller with unique
                               labels keeps the caller's labels unique, provided the caller has no
                               label of the shape `… inline<n>` for this (fresh) counter
   * `push_keeps_later_fresh`: after the expansion the caller still has no label of the shape
                               `… inline<m>` for any later counter m > n — so by induction any
                               sequence (and nesting) of expansions with increasing counters keeps
                               labels unique (`pushes_nodup`)
   * `push_refs_closed`      : every reference of the expanded body that was defined in the callee
                               (or was `.endof`) is defined in the result
   * `fix_labels_distinct`   : `.fixN`/`.fixupN` labels of different repairs differ
   * `legal_modes`           : C04's table theorem restated: a successful applicable `asm()` call
                               outside `unguardedRMW` selects a mode the 6502 has
  Not proved: label discipline of the unmodelled generator (counters per construct); it is checked
  on every compiled function by the independent front end (labels defined once, references
  defined, every line assembles).
-/
import CV.Inline
import CV.Branch
import CV.Props.C04
set_option linter.unusedSimpArgs false
namespace CV.C13
open CV

/-! ### digits -/

theorem digits_all (n : Nat) : ∀ c ∈ (toString n).toList, c.isDigit = true := by
  intro c hc
  have : (toString n).toList = Nat.toDigits 10 n := Nat.toList_repr
  rw [this] at hc
  exact Nat.isDigit_of_mem_toDigits (by decide) (by decide) hc

theorem toString_inj (a b : Nat) (h : toString a = toString b) : a = b := by
  have ha : (toString a).toList = Nat.toDigits 10 a := Nat.toList_repr
  have hb : (toString b).toList = Nat.toDigits 10 b := Nat.toList_repr
  have : Nat.toDigits 10 a = Nat.toDigits 10 b := by rw [← ha, ← hb, h]
  have h2 := congrArg (fun l => Nat.ofDigitChars 10 l 0) this
  simpa [Nat.ofDigitChars_ten_toDigits] using h2

/-- the digit suffix of `x ++ 'e' :: digits` read from the right is exactly `digits` -/
theorem takeWhile_digits (xs ds : List Char) (hd : ∀ c ∈ ds, c.isDigit = true) :
    (xs ++ 'e' :: ds).reverse.takeWhile Char.isDigit = ds.reverse := by
  have : (xs ++ 'e' :: ds).reverse = ds.reverse ++ ('e' :: xs.reverse) := by simp
  rw [this, List.takeWhile_append_of_pos (by intro a ha; exact hd a (by simpa using ha))]
  simp [List.takeWhile]

theorem suffix_toList (n : Nat) :
    (suffixOf n).toList = ['i', 'n', 'l', 'i', 'n'] ++ 'e' :: (toString n).toList := by
  have : ("inline" : String).toList = ['i', 'n', 'l', 'i', 'n', 'e'] := by decide
  simp [suffixOf, String.toList_append, this]

/-- renaming is injective in the pair (label, counter) -/
theorem rename_injective (l₁ l₂ : String) (n₁ n₂ : Nat)
    (h : l₁ ++ suffixOf n₁ = l₂ ++ suffixOf n₂) : l₁ = l₂ ∧ n₁ = n₂ := by
  have h' := congrArg String.toList h
  simp only [String.toList_append, suffix_toList] at h'
  have e1 : l₁.toList ++ (['i', 'n', 'l', 'i', 'n'] ++ 'e' :: (toString n₁).toList)
      = (l₁.toList ++ ['i', 'n', 'l', 'i', 'n']) ++ 'e' :: (toString n₁).toList := by simp
  have e2 : l₂.toList ++ (['i', 'n', 'l', 'i', 'n'] ++ 'e' :: (toString n₂).toList)
      = (l₂.toList ++ ['i', 'n', 'l', 'i', 'n']) ++ 'e' :: (toString n₂).toList := by simp
  rw [e1, e2] at h'
  have hd := congrArg (fun l => (List.reverse l).takeWhile Char.isDigit) h'
  simp only [takeWhile_digits _ _ (digits_all n₁), takeWhile_digits _ _ (digits_all n₂)] at hd
  have hdig : (toString n₁).toList = (toString n₂).toList := by
    have := congrArg List.reverse hd
    simpa using this
  have hn : n₁ = n₂ := toString_inj _ _ (String.toList_inj.mp hdig)
  subst hn
  refine ⟨?_, rfl⟩
  have : l₁.toList ++ (suffixOf n₁).toList = l₂.toList ++ (suffixOf n₁).toList := by
    have := congrArg String.toList h
    simpa [String.toList_append] using this
  exact String.toList_inj.mp (List.append_cancel_right this)

/-! ### labels under expansion -/

theorem labelsOf_append (a b : Code) : labelsOf (a ++ b) = labelsOf a ++ labelsOf b := by
  induction a with
  | nil => simp [labelsOf]
  | cons x xs ih => cases x <;> simp [labelsOf, ih]

theorem labelsOf_map_rename (c : Code) (n : Nat) :
    labelsOf (c.map (renameLine n)) = (labelsOf c).map (· ++ suffixOf n) := by
  induction c with
  | nil => simp [labelsOf]
  | cons x xs ih =>
    cases x with
    | label l => simp [labelsOf, renameLine, ih]
    | instr i =>
      by_cases hr : i.mn.isRenamed = true <;> simp [labelsOf, renameLine, hr, ih]
    | inline t s => simp [labelsOf, renameLine, ih]
    | comment s => simp [labelsOf, renameLine, ih]
    | dummy => simp [labelsOf, renameLine, ih]

theorem labelsOf_push (caller callee : Code) (n : Nat) :
    labelsOf (pushCode caller callee n)
      = labelsOf caller ++ (labelsOf callee).map (· ++ suffixOf n) ++ [".endof" ++ suffixOf n] := by
  have e : ".endofinline" ++ toString n = ".endof" ++ suffixOf n := by
    apply String.toList_inj.mp
    have a1 : (".endofinline" : String).toList = (".endof" : String).toList ++ ("inline" : String).toList := by decide
    simp [suffixOf, String.toList_append, a1]
  simp [pushCode, appendCode, labelsOf_append, labelsOf_map_rename, labelsOf]
  exact e

/-- no label of `c` has the shape `x ++ "inline" ++ m` for a counter `m ≥ n` -/
def FreshFrom (n : Nat) (c : Code) : Prop :=
  ∀ l ∈ labelsOf c, ∀ m, n ≤ m → ∀ x : String, l ≠ x ++ suffixOf m

/-- one expansion keeps labels unique -/
theorem push_labels_nodup (caller callee : Code) (n : Nat)
    (h1 : (labelsOf caller).Nodup) (h2 : (labelsOf callee).Nodup)
    (h3 : ".endof" ∉ labelsOf callee) (hf : FreshFrom n caller) :
    (labelsOf (pushCode caller callee n)).Nodup := by
  rw [labelsOf_push, List.append_assoc]
  have inj : ∀ a b : String, a ++ suffixOf n = b ++ suffixOf n → a = b :=
    fun a b h => (rename_injective a b n n h).1
  have hmap : ((labelsOf callee).map (· ++ suffixOf n)).Nodup := by
    exact List.Pairwise.map _ (fun a b hab e => hab (inj a b e)) h2
  have hend : (".endof" ++ suffixOf n) ∉ (labelsOf callee).map (· ++ suffixOf n) := by
    intro hm
    obtain ⟨a, ha, hae⟩ := List.mem_map.mp hm
    have := inj a ".endof" hae
    exact h3 (this ▸ ha)
  have hright : ((labelsOf callee).map (· ++ suffixOf n) ++ [".endof" ++ suffixOf n]).Nodup := by
    rw [List.nodup_append]
    refine ⟨hmap, by simp, ?_⟩
    intro a ha b hb
    simp at hb
    subst hb
    intro e; exact hend (e ▸ ha)
  rw [List.nodup_append]
  refine ⟨h1, hright, ?_⟩
  intro a ha b hb
  intro e
  subst e
  rcases List.mem_append.mp hb with hb | hb
  · obtain ⟨x, _, hx⟩ := List.mem_map.mp hb
    exact hf a ha n (Nat.le_refl _) x hx.symm
  · simp at hb
    exact hf a ha n (Nat.le_refl _) ".endof" hb

/-- … and leaves the caller ready for every later counter -/
theorem push_keeps_later_fresh (caller callee : Code) (n : Nat) (hf : FreshFrom n caller) :
    FreshFrom (n + 1) (pushCode caller callee n) := by
  intro l hl m hm x
  rw [labelsOf_push, List.append_assoc] at hl
  rcases List.mem_append.mp hl with hl | hl
  · exact hf l hl m (by omega) x
  · have hshape : ∃ y : String, l = y ++ suffixOf n := by
      rcases List.mem_append.mp hl with hl | hl
      · obtain ⟨y, _, hy⟩ := List.mem_map.mp hl; exact ⟨y, hy.symm⟩
      · simp at hl; exact ⟨".endof", hl⟩
    obtain ⟨y, hy⟩ := hshape
    intro e
    have := (rename_injective y x n m (by rw [← hy, e])).2
    omega

/-- any sequence of expansions with increasing counters n, n+1, … (each callee may itself be the
    result of earlier expansions: only uniqueness of its labels and absence of `.endof` are used) -/
theorem pushes_nodup (callees : List Code) :
    ∀ (caller : Code) (n : Nat), (labelsOf caller).Nodup → FreshFrom n caller →
      (∀ c ∈ callees, (labelsOf c).Nodup ∧ ".endof" ∉ labelsOf c) →
      (labelsOf ((callees.zipIdx n).foldl (fun acc p => pushCode acc p.1 p.2) caller)).Nodup := by
  induction callees with
  | nil => intro caller n h _ _; simpa using h
  | cons c cs ih =>
    intro caller n h hf hc
    simp only [List.zipIdx_cons, List.foldl_cons]
    have hc0 := hc c (by simp)
    exact ih _ (n + 1) (push_labels_nodup caller c n h hc0.1 hc0.2 hf)
      (push_keeps_later_fresh caller c n hf) (fun c' hc' => hc c' (by simp [hc']))

theorem refsOf_append (a b : Code) : refsOf (a ++ b) = refsOf a ++ refsOf b := by
  induction a with
  | nil => simp [refsOf]
  | cons x xs ih =>
    cases x with
    | instr i => by_cases hr : i.mn.isRenamed = true <;> simp [refsOf, hr, ih]
    | label l => simp [refsOf, ih]
    | inline t s => simp [refsOf, ih]
    | comment s => simp [refsOf, ih]
    | dummy => simp [refsOf, ih]

theorem refsOf_map_rename (c : Code) (n : Nat) :
    refsOf (c.map (renameLine n)) = (refsOf c).map (· ++ suffixOf n) := by
  induction c with
  | nil => simp [refsOf]
  | cons x xs ih =>
    cases x with
    | instr i =>
      by_cases hr : i.mn.isRenamed = true
      · simp [refsOf, renameLine, hr, ih]
      · simp [refsOf, renameLine, hr, ih]
    | label l => simp [refsOf, renameLine, ih]
    | inline t s => simp [refsOf, renameLine, ih]
    | comment s => simp [refsOf, renameLine, ih]
    | dummy => simp [refsOf, renameLine, ih]

/-- references stay closed: whatever the callee's branches and jumps referred to — one of its own
    labels, or `.endof` (the inline return) — is defined after the expansion -/
theorem push_refs_closed (caller callee : Code) (n : Nat)
    (hc : ∀ r ∈ refsOf callee, r ∈ labelsOf callee ∨ r = ".endof") :
    ∀ r ∈ refsOf (callee.map (renameLine n)), r ∈ labelsOf (pushCode caller callee n) := by
  intro r hr
  rw [refsOf_map_rename] at hr
  obtain ⟨r0, hr0, e⟩ := List.mem_map.mp hr
  rw [labelsOf_push]
  rcases hc r0 hr0 with h | h
  · have : r ∈ (labelsOf callee).map (· ++ suffixOf n) := List.mem_map.mpr ⟨r0, h, e⟩
    simp [this]
  · subst h; simp [← e]

/-- labels of different long-branch repairs differ -/
theorem fix_labels_distinct (a b : Nat) (h : ".fix" ++ toString a = ".fix" ++ toString b) : a = b := by
  have h' := congrArg String.toList h
  simp only [String.toList_append] at h'
  exact toString_inj _ _ (String.toList_inj.mp (List.append_cancel_left h'))

theorem fixup_labels_distinct (a b : Nat) (h : ".fixup" ++ toString a = ".fixup" ++ toString b) : a = b := by
  have h' := congrArg String.toList h
  simp only [String.toList_append] at h'
  exact toString_inj _ _ (String.toList_inj.mp (List.append_cancel_left h'))

/-- modes: a successful applicable call of `asm()` outside the unguarded list has an encoding -/
theorem legal_modes (mn : Mn) (hmn : mn ∈ C04.asmMns) (k : OKind) (ty : VType) (c zp s1 e h : Bool)
    (f : Form) (nb cyc : Nat) (alt : Option Nat)
    (hs : selA mn k ty c zp s1 e h = SelA.ok f nb cyc alt) (ha : applicable mn f = true)
    (hu : C04.unguardedRMW mn f = false) :
    (modeOfForm mn f zp).isSome = true := by
  obtain ⟨m, hm, _⟩ := C04.selA_size_mode mn hmn k ty c zp s1 e h f nb cyc alt hs ha hu
  simp [hm]

/-! non-vacuity: the same callee expanded twice -/
def callee : Code := [.label ".a", mkBranch .BNE ".a", mkJmp ".endof"]
example : labelsOf (pushCode (pushCode [.label ".m"] callee 1) callee 2)
    = [".m", ".ainline1", ".endofinline1", ".ainline2", ".endofinline2"] := by decide
example : FreshFrom 1 [Line.label ".m"] := by
  intro l hl m _ x e
  simp [labelsOf] at hl
  subst hl
  have := congrArg String.toList e
  simp only [String.toList_append, suffix_toList] at this
  have hlen := congrArg List.length this
  have e1 : (".m" : String).toList.length = 2 := by decide
  simp [e1] at hlen
  omega

end CV.C13
