/-
  Property C17 — split-port cartridge RAM is read and written through the right ports.
  Model: CV.AsmSel.portOffset / asmSel (port of the offset logic of asm()), CV.Exec.accessKind
  (which 6502 instructions read, write, or read-modify-write memory — from the MOS semantics).

  Proved:
   * `access_classes` : among the mnemonics asm() can be given, exactly STA/STX/STY write memory,
     INC/DEC/ASL/LSR/ROL/ROR read-modify-write it, the load/ALU/compare group reads it
   * `superchip_ports` : for a Superchip variable every write is addressed at offset 0 (write port)
     and every read at offset $80 (read port); `onchip_ports_3E`, `onchip_ports_3EP` likewise with
     the write port $400 / $200 above the read port
   * `ordinary_unaffected` : every other memory class gets offset 0 for every mnemonic and scheme
   * `offset_reaches_text` : the offset is what `asmSel` renders into the operand of a direct operand
   * `rmw_not_rejected_witness` : asm() itself does not reject a read-modify-write instruction on a
     split-port variable (it emits it on the read port): avoiding them is left to the callers
  Not proved: that the generator never calls asm() with a read-modify-write mnemonic on such a
  variable (known finding: 16-bit in-place shifts) and that programs still compute what the source
  says; both are decided by co-execution on a split-port memory model against CV.CSem.
-/
import CV.AsmSel
import CV.Exec
set_option linter.unusedSimpArgs false
namespace CV.C17
open CV

def asmMns : List Mn := Mn.all.take 45

theorem access_classes :
    ∀ mn ∈ asmMns,
      (accessKind mn = some Acc.wr ↔ isStore mn = true) ∧
      (accessKind mn = some Acc.rmw ↔ mn.cls = MnClass.rmw) ∧
      (accessKind mn = some Acc.rd → mn.cls = MnClass.read) := by decide

theorem superchip_ports (mn : Mn) (sch : Scheme) :
    portOffset mn .superchip sch = (if isStore mn then 0 else 0x80) := by
  simp [portOffset]

theorem onchip_ports_3E (mn : Mn) : portOffset mn .onchip .e3 = (if isStore mn then 0x400 else 0) := by
  simp [portOffset]

theorem onchip_ports_3EP (mn : Mn) : portOffset mn .onchip .e3p = (if isStore mn then 0x200 else 0) := by
  simp [portOffset]

theorem ordinary_unaffected (mn : Mn) (mem : VMem) (sch : Scheme)
    (h1 : mem ≠ .superchip) (h2 : mem ≠ .onchip) : portOffset mn mem sch = 0 := by
  cases mem <;> simp_all [portOffset]

theorem selA_abs_char (mn : Mn) (hc : mn.cls = MnClass.read ∨ mn.cls = MnClass.store) :
    ∃ nb cyc, selA mn .abs .char false false true true false = SelA.ok (.dir .p0 .pos) nb cyc none := by
  cases mn <;> simp [Mn.cls] at hc <;> exact ⟨_, _, rfl⟩

/-- the rendered operand of a direct access to a Superchip `char` carries exactly that offset -/
theorem offset_reaches_text (mn : Mn) (name : String) (sch : Scheme) (prot : Bool)
    (hc : mn.cls = MnClass.read ∨ mn.cls = MnClass.store) :
    ∃ i, asmSel mn .abs { name := name, ty := .char, const := false, mem := .superchip, size := 1 } sch true 0 false prot
        = .instr i ∧
      i.opd = (if isStore mn then name else name ++ "+128") := by
  obtain ⟨nb, cyc, hs⟩ := selA_abs_char mn hc
  have hz : ((VMem.superchip == VMem.zeropage) = false) := by decide
  simp only [asmSel, hz, hs, superchip_ports]
  refine ⟨_, rfl, ?_⟩
  by_cases h : isStore mn = true
  · simp [h, withOff, plusVal]
  · have e : Nat.repr 128 = "128" := by decide
    simp [h, withOff, plusVal, showInt, e, String.append_assoc]

theorem rmw_not_rejected_witness :
    ∃ i, asmSel .ASL .abs { name := "s", ty := .short, const := false, mem := .superchip, size := 1 } .k4 false 0 false false
        = .instr i ∧ i.opd = "s+128" := by
  refine ⟨_, rfl, ?_⟩
  decide

/-! non-vacuity -/
example : portOffset .STA .superchip .k4 = 0 ∧ portOffset .LDA .superchip .k4 = 128 ∧ portOffset .CMP .superchip .k4 = 128 := by decide

end CV.C17
