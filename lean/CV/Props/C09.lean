/-
  Property C09 — string and character literals are stored byte-exact.
  Models: CV.Lit (decoding over the escape table translated from compile_quoted_string_ex on this
  run), CV.Cpp.findClose / scanLine (literal extraction of cpp::process).

  Proved:
   * `decode_correct`  : for every body made of plain characters and the escapes of the property
                         (\n \r \t \a \b \f \v \0 \\ \"), decoding yields exactly C's codes, in order
   * `stored_is_decode_nul` : stored bytes = decoded bytes of the adjacent literals, concatenated,
                         followed by exactly one NUL
   * `char_const`      : a character constant denotes its character's code (plain and escaped)
   * `findClose_plain` : a literal body without quotes and backslashes is closed exactly at its
                         closing quote, whatever follows (text that looks like comments, directives
                         or macro names inside the body is irrelevant to the scan)
   * `findClose_escaped_quote` : an escaped quote `\"` inside the body does not close the literal
   * `odd_backslashes_witness` : the scanner's two-character look-back is fooled by `\\\"`
                         (backslash-backslash-backslash-quote): stated, not hidden
  Not proved: extraction for arbitrary mixes of escapes (`ScannerOK` bodies) and the opacity of
  markers through macro replacement — both covered by the differential correspondence (hook H2)
  and by end-to-end compilation of literals in every syntactic position.
-/
import CV.Lit
import CV.Cpp
set_option linter.unusedSimpArgs false
namespace CV.C09
open CV.Lit CV.Cpp

/-- C's escape table for the escapes named by the property -/
def cEscape : Char → Option Nat
  | 'n' => some 10 | 'r' => some 13 | 't' => some 9 | 'a' => some 7 | 'b' => some 8
  | 'f' => some 12 | 'v' => some 11 | '0' => some 0 | '\\' => some 92 | '"' => some 34
  | _ => none

inductive Item
  | plain (c : Char)
  | esc (c : Char)

def Item.wf : Item → Prop
  | .plain c => c ≠ '\\'
  | .esc c => (cEscape c).isSome

def Item.print : Item → List Char
  | .plain c => [c]
  | .esc c => ['\\', c]

def Item.code : Item → Nat
  | .plain c => c.toNat
  | .esc c => (cEscape c).getD 0

def printAll (is : List Item) : List Char := (is.map Item.print).flatten

theorem esc_lookup (c : Char) (h : (cEscape c).isSome) : escCode c = (cEscape c).getD 0 := by
  unfold cEscape at h ⊢
  split at h <;> first | (simp at h; done) | decide

theorem decode_plain (c : Char) (r : List Char) (h : c ≠ '\\') : decode (c :: r) = c.toNat :: decode r := by
  simp [decode, decodeGo, h]

theorem decode_esc (d : Char) (r : List Char) : decode ('\\' :: d :: r) = escCode d :: decode r := by
  simp [decode, decodeGo]

/-- decoding is C's: every escape of the property's list and every plain character -/
theorem decode_correct (is : List Item) (h : ∀ i ∈ is, i.wf) :
    decode (printAll is) = is.map Item.code := by
  induction is with
  | nil => simp [printAll, decode, decodeGo]
  | cons i rest ih =>
    have hi := h i (by simp)
    have hr := ih (fun j hj => h j (by simp [hj]))
    cases i with
    | plain c =>
      simp only [Item.wf] at hi
      simp only [printAll] at hr
      simp only [printAll, List.map_cons, List.flatten_cons, Item.print, List.cons_append, List.nil_append, Item.code]
      rw [decode_plain c _ hi, hr]
    | esc c =>
      simp only [Item.wf] at hi
      simp only [printAll] at hr
      simp only [printAll, List.map_cons, List.flatten_cons, Item.print, List.cons_append, List.nil_append, Item.code]
      rw [decode_esc, esc_lookup c hi, hr]

theorem stored_is_decode_nul (lits : List (List Char)) :
    stored lits = (lits.map decode).flatten ++ [0] := by
  simp [stored, CV.Gen.literalAppendsNul]

theorem char_const_plain (c : Char) (h : c ≠ '\\') : charConst [c] = some c.toNat := by
  have := decode_correct [.plain c] (by intro i hi; simp at hi; subst hi; exact h)
  simp [printAll, Item.print, Item.code] at this
  simp [charConst, this]

theorem char_const_escape (c : Char) (h : (cEscape c).isSome) : charConst ['\\', c] = cEscape c := by
  have := decode_correct [.esc c] (by intro i hi; simp at hi; subst hi; exact h)
  simp [printAll, Item.print, Item.code] at this
  simp [charConst, this]
  cases hc : cEscape c <;> simp_all

/-! ### the closing-quote scan -/

theorem splitOnce_quote_plain (body post : List Char) (h : '"' ∉ body) :
    splitOnce ['"'] (body ++ '"' :: post) = some (body, post) := by
  induction body with
  | nil => simp [splitOnce]
  | cons c cs ih =>
    have hc : c ≠ '"' := fun e => h (by simp [e])
    have hcs : '"' ∉ cs := fun e => h (by simp [e])
    simp only [List.cons_append, splitOnce]
    have : (['"'].isPrefixOf (c :: (cs ++ '"' :: post))) = false := by
      simp [List.isPrefixOf, hc.symm]
    simp [this, ih hcs]

theorem endsWith_bs_false (body : List Char) (h : '\\' ∉ body) : endsWith body ['\\'] = false := by
  unfold endsWith
  cases hs : List.isSuffixOf ['\\'] body with
  | false => rfl
  | true =>
    exfalso
    have := List.isSuffixOf_iff_suffix.mp hs
    obtain ⟨t, ht⟩ := this
    apply h
    rw [← ht]; simp

/-- a body without quotes and backslashes — whatever else it contains: `//`, `/* */`, `#define`,
    macro names — ends exactly at its closing quote -/
theorem findClose_plain (body post : List Char) (n : Nat) (hq : '"' ∉ body) (hb : '\\' ∉ body) :
    findClose (n + 1) (body ++ '"' :: post) = some body.length := by
  simp [findClose, splitOnce_quote_plain body post hq, endsWith_bs_false body hb]

/-- an escaped quote inside the body is skipped (the body before it free of quotes/backslashes) -/
theorem findClose_escaped_quote (a b post : List Char) (n : Nat)
    (ha1 : '"' ∉ a) (ha2 : '\\' ∉ a) (hb1 : '"' ∉ b) (hb2 : '\\' ∉ b) :
    findClose (n + 2) (a ++ '\\' :: '"' :: (b ++ '"' :: post)) = some (a.length + 2 + b.length) := by
  have h1 : '"' ∉ a ++ ['\\'] := by simp [ha1]
  have e : a ++ '\\' :: '"' :: (b ++ '"' :: post) = (a ++ ['\\']) ++ '"' :: (b ++ '"' :: post) := by simp
  rw [e]
  unfold findClose
  rw [splitOnce_quote_plain _ _ h1]
  have h2 : endsWith (a ++ ['\\']) ['\\'] = true := by
    simp [endsWith, List.isSuffixOf_iff_suffix]
  have h3 : endsWith (a ++ ['\\']) ['\\', '\\'] = false := by
    unfold endsWith
    cases hs : List.isSuffixOf ['\\', '\\'] (a ++ ['\\']) with
    | false => rfl
    | true =>
      exfalso
      obtain ⟨t, ht⟩ := List.isSuffixOf_iff_suffix.mp hs
      have : t ++ ['\\'] = a := by
        have h' : (t ++ ['\\']) ++ ['\\'] = a ++ ['\\'] := by simpa using ht
        exact List.append_cancel_right h'
      apply ha2; rw [← this]; simp
  simp only [h2, h3, Bool.not_true, if_false, Bool.false_eq_true]
  rw [findClose_plain b post n hb1 hb2]
  simp; omega

/-- what the look-back cannot see: backslash-backslash-backslash-quote inside a body closes it -/
theorem odd_backslashes_witness :
    findClose 10 "a\\\\\\\"b\" rest".toList = some 4 := by decide

/-! non-vacuity -/
example : decode "a\\n\\\"b\\\\".toList = [97, 10, 34, 98, 92] := by decide
example : findClose 5 "// not a comment /* #define X */\" tail".toList = some 32 := by decide

end CV.C09
