/-
  Property C09 — string and character literals are stored byte-exact.
  Models: CV.Lit (decoding over the escape table translated from compile_quoted_string_ex on this
  run), CV.Cpp.findClose / scanLine (literal extraction of cpp::process).

  Proved:
   * `decode_correct`  : for every body made of plain characters and the escapes of the property
                         (\n \r \t \a \b \f \v \0 \\ \"), decoding yields exactly C's codes, in order
   * `stored_is_decode_nul` : stored bytes = decoded bytes of the adjacent literals, concatenated,
                         followed by exactly one NUL
   * `char_const`      : a character constant denotes its character's code (plain and escaped)
   * `findClose_plain` : a literal body without quotes and backslashes is closed exactly at its
                         closing quote, whatever follows (text that looks like comments, directives
                         or macro names inside the body is irrelevant to the scan)
   * `findClose_escaped_quote` : an escaped quote `\"` inside the body does not close the literal
   * `odd_backslashes_witness` : the scanner's two-character look-back is fooled by `\\\"`
                         (backslash-backslash-backslash-quote): stated, not hidden
   * `findClose_body`, `literal_extracted` : EVERY body made of plain characters and the property's escapes, in any
                         mix and of any length, is closed exactly at its closing quote, whatever follows — under the
                         scanner's precondition `ScannerOK` (an escaped quote never directly follows an escaped
                         backslash: the two-character look-back), which `scannerOK_of_b` makes checkable
  Not proved: the opacity of markers through macro replacement — covered by the differential correspondence
  (hook H2) and by end-to-end compilation of literals in every syntactic position.
-/
import CV.Lit
import CV.Cpp
set_option linter.unusedSimpArgs false
namespace CV.C09
open CV.Lit CV.Cpp

/-- C's escape table for the escapes named by the property -/
def cEscape : Char → Option Nat
  | 'n' => some 10 | 'r' => some 13 | 't' => some 9 | 'a' => some 7 | 'b' => some 8
  | 'f' => some 12 | 'v' => some 11 | '0' => some 0 | '\\' => some 92 | '"' => some 34
  | _ => none

inductive Item
  | plain (c : Char)
  | esc (c : Char)

def Item.wf : Item → Prop
  | .plain c => c ≠ '\\'
  | .esc c => (cEscape c).isSome

def Item.print : Item → List Char
  | .plain c => [c]
  | .esc c => ['\\', c]

def Item.code : Item → Nat
  | .plain c => c.toNat
  | .esc c => (cEscape c).getD 0

def printAll (is : List Item) : List Char := (is.map Item.print).flatten

theorem esc_lookup (c : Char) (h : (cEscape c).isSome) : escCode c = (cEscape c).getD 0 := by
  unfold cEscape at h ⊢
  split at h <;> first | (simp at h; done) | decide

theorem decode_plain (c : Char) (r : List Char) (h : c ≠ '\\') : decode (c :: r) = c.toNat :: decode r := by
  simp [decode, decodeGo, h]

theorem decode_esc (d : Char) (r : List Char) : decode ('\\' :: d :: r) = escCode d :: decode r := by
  simp [decode, decodeGo]

/-- decoding is C's: every escape of the property's list and every plain character -/
theorem decode_correct (is : List Item) (h : ∀ i ∈ is, i.wf) :
    decode (printAll is) = is.map Item.code := by
  induction is with
  | nil => simp [printAll, decode, decodeGo]
  | cons i rest ih =>
    have hi := h i (by simp)
    have hr := ih (fun j hj => h j (by simp [hj]))
    cases i with
    | plain c =>
      simp only [Item.wf] at hi
      simp only [printAll] at hr
      simp only [printAll, List.map_cons, List.flatten_cons, Item.print, List.cons_append, List.nil_append, Item.code]
      rw [decode_plain c _ hi, hr]
    | esc c =>
      simp only [Item.wf] at hi
      simp only [printAll] at hr
      simp only [printAll, List.map_cons, List.flatten_cons, Item.print, List.cons_append, List.nil_append, Item.code]
      rw [decode_esc, esc_lookup c hi, hr]

theorem stored_is_decode_nul (lits : List (List Char)) :
    stored lits = (lits.map decode).flatten ++ [0] := by
  simp [stored, CV.Gen.literalAppendsNul]

theorem char_const_plain (c : Char) (h : c ≠ '\\') : charConst [c] = some c.toNat := by
  have := decode_correct [.plain c] (by intro i hi; simp at hi; subst hi; exact h)
  simp [printAll, Item.print, Item.code] at this
  simp [charConst, this]

theorem char_const_escape (c : Char) (h : (cEscape c).isSome) : charConst ['\\', c] = cEscape c := by
  have := decode_correct [.esc c] (by intro i hi; simp at hi; subst hi; exact h)
  simp [printAll, Item.print, Item.code] at this
  simp [charConst, this]
  cases hc : cEscape c <;> simp_all

/-! ### the closing-quote scan -/

theorem splitOnce_quote_plain (body post : List Char) (h : '"' ∉ body) :
    splitOnce ['"'] (body ++ '"' :: post) = some (body, post) := by
  induction body with
  | nil => simp [splitOnce]
  | cons c cs ih =>
    have hc : c ≠ '"' := fun e => h (by simp [e])
    have hcs : '"' ∉ cs := fun e => h (by simp [e])
    simp only [List.cons_append, splitOnce]
    have : (['"'].isPrefixOf (c :: (cs ++ '"' :: post))) = false := by
      simp [List.isPrefixOf, hc.symm]
    simp [this, ih hcs]

theorem endsWith_bs_false (body : List Char) (h : '\\' ∉ body) : endsWith body ['\\'] = false := by
  unfold endsWith
  cases hs : List.isSuffixOf ['\\'] body with
  | false => rfl
  | true =>
    exfalso
    have := List.isSuffixOf_iff_suffix.mp hs
    obtain ⟨t, ht⟩ := this
    apply h
    rw [← ht]; simp

/-- a body without quotes and backslashes — whatever else it contains: `//`, `/* */`, `#define`,
    macro names — ends exactly at its closing quote -/
theorem findClose_plain (body post : List Char) (n : Nat) (hq : '"' ∉ body) (hb : '\\' ∉ body) :
    findClose (n + 1) (body ++ '"' :: post) = some body.length := by
  simp [findClose, splitOnce_quote_plain body post hq, endsWith_bs_false body hb]

/-- an escaped quote inside the body is skipped (the body before it free of quotes/backslashes) -/
theorem findClose_escaped_quote (a b post : List Char) (n : Nat)
    (ha1 : '"' ∉ a) (ha2 : '\\' ∉ a) (hb1 : '"' ∉ b) (hb2 : '\\' ∉ b) :
    findClose (n + 2) (a ++ '\\' :: '"' :: (b ++ '"' :: post)) = some (a.length + 2 + b.length) := by
  have h1 : '"' ∉ a ++ ['\\'] := by simp [ha1]
  have e : a ++ '\\' :: '"' :: (b ++ '"' :: post) = (a ++ ['\\']) ++ '"' :: (b ++ '"' :: post) := by simp
  rw [e]
  unfold findClose
  rw [splitOnce_quote_plain _ _ h1]
  have h2 : endsWith (a ++ ['\\']) ['\\'] = true := by
    simp [endsWith, List.isSuffixOf_iff_suffix]
  have h3 : endsWith (a ++ ['\\']) ['\\', '\\'] = false := by
    unfold endsWith
    cases hs : List.isSuffixOf ['\\', '\\'] (a ++ ['\\']) with
    | false => rfl
    | true =>
      exfalso
      obtain ⟨t, ht⟩ := List.isSuffixOf_iff_suffix.mp hs
      have : t ++ ['\\'] = a := by
        have h' : (t ++ ['\\']) ++ ['\\'] = a ++ ['\\'] := by simpa using ht
        exact List.append_cancel_right h'
      apply ha2; rw [← this]; simp
  simp only [h2, h3, Bool.not_true, if_false, Bool.false_eq_true]
  rw [findClose_plain b post n hb1 hb2]
  simp; omega

/-! ### the closing-quote scan on ARBITRARY bodies of plain characters and escapes -/

def Item.isQuoteEsc : Item → Bool
  | .esc c => c == '"'
  | _ => false

def Item.isBsEsc : Item → Bool
  | .esc c => c == '\\'
  | _ => false

/-- a body item: a plain character that is neither a backslash nor a quote, or one of the property's escapes -/
def Item.bodyOK : Item → Prop
  | .plain c => c ≠ '\\' ∧ c ≠ '"'
  | .esc c => (cEscape c).isSome

def lastIsBs (a : List Item) : Bool :=
  match a.getLast? with
  | some i => i.isBsEsc
  | none => false

/-- the scanner's precondition (its look-back is two characters): an escaped quote never directly follows an
    escaped backslash -/
def ScannerOK (is : List Item) : Prop := ∀ a b i, is = a ++ i :: b → i.isQuoteEsc = true → lastIsBs a = false

theorem lastIsBs_snoc (l : List Item) (z : Item) : lastIsBs (l ++ [z]) = z.isBsEsc := by simp [lastIsBs]

theorem printAll_append (a b : List Item) : printAll (a ++ b) = printAll a ++ printAll b := by
  simp [printAll]

theorem printAll_cons (i : Item) (b : List Item) : printAll (i :: b) = i.print ++ printAll b := by
  simp [printAll]

theorem quote_free (a : List Item) (h : ∀ i ∈ a, i.bodyOK ∧ i.isQuoteEsc = false) : '"' ∉ printAll a := by
  induction a with
  | nil => simp [printAll]
  | cons i r ih =>
    rw [printAll_cons]
    have hi := h i (by simp)
    have hr := ih (fun j hj => h j (by simp [hj]))
    cases i with
    | plain c =>
      simp only [Item.print, List.cons_append, List.nil_append, List.mem_cons, not_or]
      exact ⟨fun e => hi.1.2 e.symm, hr⟩
    | esc c =>
      have hc : c ≠ '"' := by
        intro e; subst e; simp [Item.isQuoteEsc] at hi
      simp only [Item.print, List.cons_append, List.nil_append, List.mem_cons, not_or]
      exact ⟨by decide, fun e => hc e.symm, hr⟩

theorem snoc_cases {α : Type} (l : List α) : l = [] ∨ ∃ r i, l = r ++ [i] := by
  rcases List.eq_nil_or_concat l with h | ⟨r, i, h⟩
  · exact Or.inl h
  · exact Or.inr ⟨r, i, by simpa using h⟩

theorem endsWith_snoc (s : List Char) (c d : Char) : endsWith (s ++ [c]) [d] = (c == d) := by
  unfold endsWith
  cases h : c == d with
  | true =>
    have : c = d := by simpa using h
    subst this
    simp [List.isSuffixOf_iff_suffix]
  | false =>
    have hne : c ≠ d := by simpa using h
    cases hs : List.isSuffixOf [d] (s ++ [c]) with
    | false => rfl
    | true =>
      exfalso
      obtain ⟨t, ht⟩ := List.isSuffixOf_iff_suffix.mp hs
      have := List.append_inj' ht (by simp)
      simp at this
      exact hne this.2.symm

theorem endsWith_snoc2 (s : List Char) (b c d e : Char) : endsWith (s ++ [b, c]) [d, e] = (b == d && c == e) := by
  unfold endsWith
  cases h : (b == d && c == e) with
  | true =>
    simp only [Bool.and_eq_true, beq_iff_eq] at h
    obtain ⟨h1, h2⟩ := h
    subst h1; subst h2
    simp [List.isSuffixOf_iff_suffix]
  | false =>
    cases hs : List.isSuffixOf [d, e] (s ++ [b, c]) with
    | false => rfl
    | true =>
      exfalso
      obtain ⟨t, ht⟩ := List.isSuffixOf_iff_suffix.mp hs
      have := List.append_inj' ht (by simp)
      simp at this
      simp [this.2.1, this.2.2] at h

/-- the printed body ends with a backslash exactly when its last item is an escaped backslash — and then it ends
    with two -/
theorem ends_bs (a : List Item) (h : ∀ i ∈ a, i.bodyOK) :
    endsWith (printAll a) ['\\'] = lastIsBs a ∧ (lastIsBs a = true → endsWith (printAll a) ['\\', '\\'] = true) := by
  rcases snoc_cases a with rfl | ⟨r, i, rfl⟩
  · simp [printAll, lastIsBs, endsWith]
  · have hi := h i (by simp)
    have hl : lastIsBs (r ++ [i]) = i.isBsEsc := by simp [lastIsBs]
    rw [printAll_append, hl]
    cases i with
    | plain c =>
      have : printAll [Item.plain c] = [c] := by simp [printAll, Item.print]
      rw [this, endsWith_snoc]
      have hc : (c == '\\') = false := by simpa using hi.1
      simp [Item.isBsEsc, hc]
    | esc c =>
      have : printAll [Item.esc c] = ['\\', c] := by simp [printAll, Item.print]
      rw [this]
      have e1 : printAll r ++ ['\\', c] = (printAll r ++ ['\\']) ++ [c] := by simp
      constructor
      · rw [e1, endsWith_snoc]; rfl
      · intro hb
        rw [endsWith_snoc2]
        simpa [Item.isBsEsc] using hb

/-- EVERY body of plain characters and escapes that meets the scanner's precondition is closed exactly at its
    closing quote, whatever follows -/
theorem findClose_body (post : List Char) : ∀ (is a : List Item) (fuel : Nat), is.length < fuel →
    (∀ i ∈ a, i.bodyOK ∧ i.isQuoteEsc = false) → (∀ i ∈ is, i.bodyOK) → ScannerOK (a ++ is) →
    findClose fuel (printAll a ++ printAll is ++ '"' :: post) = some ((printAll a).length + (printAll is).length) := by
  intro is
  induction is with
  | nil =>
    intro a fuel hf ha _ _
    obtain ⟨f, rfl⟩ : ∃ f, fuel = f + 1 := ⟨fuel - 1, by omega⟩
    have hq := quote_free a ha
    have he := ends_bs a (fun i hi => (ha i hi).1)
    simp only [printAll, List.map_nil, List.flatten_nil, List.append_nil, List.length_nil, Nat.add_zero] at *
    unfold findClose
    rw [splitOnce_quote_plain _ _ hq]
    cases hb : lastIsBs a with
    | false => simp [he.1, hb]
    | true => simp [he.1, hb, he.2 hb]
  | cons i rest ih =>
    intro a fuel hf ha his hok
    have hi := his i (by simp)
    have hrest : ∀ j ∈ rest, j.bodyOK := fun j hj => his j (by simp [hj])
    cases hqe : i.isQuoteEsc with
    | false =>
      -- not a quote: it joins the scanned part
      have ha' : ∀ j ∈ a ++ [i], j.bodyOK ∧ j.isQuoteEsc = false := by
        intro j hj
        simp only [List.mem_append, List.mem_singleton] at hj
        rcases hj with hj | rfl
        · exact ha j hj
        · exact ⟨hi, hqe⟩
      have hok' : ScannerOK ((a ++ [i]) ++ rest) := by simpa using hok
      have := ih (a ++ [i]) fuel (by simp at hf; omega) ha' hrest hok'
      rw [printAll_append a [i]] at this
      have e : printAll [i] = i.print := by simp [printAll]
      rw [printAll_cons]
      rw [e] at this
      simp only [List.append_assoc, List.length_append] at this ⊢
      rw [this]
      congr 1; omega
    | true =>
      -- an escaped quote: the scan looks at it, sees the backslash before it, and goes on behind it
      obtain ⟨f, rfl⟩ : ∃ f, fuel = f + 1 := ⟨fuel - 1, by omega⟩
      have hc : i = .esc '"' := by
        cases i with
        | plain c => simp [Item.isQuoteEsc] at hqe
        | esc c => simp [Item.isQuoteEsc] at hqe; rw [hqe]
      subst hc
      have hnb : lastIsBs a = false := hok a rest (.esc '"') rfl rfl
      have hq : '"' ∉ printAll a ++ ['\\'] := by
        have := quote_free a ha
        simp [this]
      have e : printAll a ++ printAll (Item.esc '"' :: rest) ++ '"' :: post
          = (printAll a ++ ['\\']) ++ '"' :: (printAll rest ++ '"' :: post) := by
        simp [printAll_cons, Item.print]
      rw [e]
      unfold findClose
      rw [splitOnce_quote_plain _ _ hq]
      have he := ends_bs a (fun j hj => (ha j hj).1)
      have h2 : endsWith (printAll a ++ ['\\']) ['\\'] = true := by rw [endsWith_snoc]; rfl
      have h3 : endsWith (printAll a ++ ['\\']) ['\\', '\\'] = false := by
        rcases snoc_cases (printAll a) with hr | ⟨s, c, hr⟩
        · rw [hr]; simp only [List.nil_append, endsWith]; decide
        · have e2 : s ++ [c] ++ ['\\'] = s ++ [c, '\\'] := by simp
          rw [hr, e2, endsWith_snoc2]
          have h1 := he.1
          rw [hr, endsWith_snoc, hnb] at h1
          simp [h1]
      simp only [h2, h3, Bool.not_true, if_false, Bool.false_eq_true]
      have hok' : ScannerOK ([] ++ rest) := by
        intro x y j hxy hj
        simp only [List.nil_append] at hxy
        have := hok (a ++ Item.esc '"' :: x) y j (by simp [hxy]) hj
        rcases snoc_cases x with rfl | ⟨x', z, rfl⟩
        · simp [lastIsBs]
        · have e5 : a ++ Item.esc '"' :: (x' ++ [z]) = (a ++ Item.esc '"' :: x') ++ [z] := by simp
          rw [e5] at this
          rw [lastIsBs_snoc] at this ⊢
          exact this
      have := ih [] f (by simp at hf; omega) (by simp) hrest hok'
      simp only [printAll, List.map_nil, List.flatten_nil, List.nil_append, List.length_nil, Nat.zero_add] at this
      have e3 : (List.map Item.print rest).flatten = printAll rest := rfl
      rw [e3] at this
      rw [this]
      simp [printAll_cons, Item.print]
      omega

/-- the same, stated for a whole literal: `"` body `"` -/
theorem literal_extracted (is : List Item) (post : List Char) (h : ∀ i ∈ is, i.bodyOK) (hok : ScannerOK is) :
    findClose (is.length + 1) (printAll is ++ '"' :: post) = some (printAll is).length := by
  have := findClose_body post is [] (is.length + 1) (by omega) (by simp) h (by simpa using hok)
  simpa [printAll] using this

/-- the precondition as a check on adjacent items -/
def scannerOKb : List Item → Bool
  | a :: b :: r => !(a.isBsEsc && b.isQuoteEsc) && scannerOKb (b :: r)
  | _ => true

theorem scannerOKb_mid : ∀ (p : List Item) (z i : Item) (b : List Item),
    scannerOKb (p ++ z :: i :: b) = true → (z.isBsEsc && i.isQuoteEsc) = false := by
  intro p
  induction p with
  | nil =>
    intro z i b h
    simp only [List.nil_append, scannerOKb, Bool.and_eq_true, Bool.not_eq_true'] at h
    exact h.1
  | cons x xs ih =>
    intro z i b h
    cases xs with
    | nil =>
      simp only [List.cons_append, List.nil_append, scannerOKb, Bool.and_eq_true] at h
      exact ih z i b (by simpa [scannerOKb] using h.2)
    | cons y ys =>
      simp only [List.cons_append, scannerOKb, Bool.and_eq_true] at h
      exact ih z i b (by simpa using h.2)

theorem scannerOK_of_b (is : List Item) (h : scannerOKb is = true) : ScannerOK is := by
  intro a b i he hq
  rcases snoc_cases a with rfl | ⟨a', z, rfl⟩
  · rfl
  · rw [lastIsBs_snoc]
    have : is = a' ++ z :: i :: b := by simp [he]
    rw [this] at h
    have := scannerOKb_mid a' z i b h
    simpa [hq] using this

/-! non-vacuity: `a\\b\"\n` (escaped backslash, then a plain character, then an escaped quote) meets the precondition;
    the witness `\\\"` does not -/
example : ScannerOK [.plain 'a', .esc '\\', .plain 'b', .esc '"', .esc 'n'] := scannerOK_of_b _ (by decide)
example : scannerOKb [.esc '\\', .esc '"'] = false := by decide
example : findClose 6 (printAll [.plain 'a', .esc '\\', .plain 'b', .esc '"', .esc 'n'] ++ '"' :: [' ', 'x'])
    = some 8 := by decide

/-- what the look-back cannot see: backslash-backslash-backslash-quote inside a body closes it -/
theorem odd_backslashes_witness :
    findClose 10 "a\\\\\\\"b\" rest".toList = some 4 := by decide

/-! non-vacuity -/
example : decode "a\\n\\\"b\\\\".toList = [97, 10, 34, 98, 92] := by decide
example : findClose 5 "// not a comment /* #define X */\" tail".toList = some 32 := by decide

end CV.C09
