/-
  Property C08 — macro expansion is token-exact.
  Model: CV.Cpp.substWord / substWordGo (the `\bNAME\b` replace_all of cpp.rs on ASCII text),
  CV.Cpp.applyMacro / replaceAll, CV.Cpp.process.

  Proved, for every macro name, replacement text and line:
   * `no_match_unchanged`     : where the name occurs nowhere as a whole word the line is unchanged
   * `not_inside_identifier_left` / `_right` : an occurrence preceded or followed by a word character
                                (i.e. part of a longer identifier) is not a match
   * `markers_untouched`      : a literal marker `@k@` is never changed by a macro whose name starts
                                with a letter or underscore — literal opacity (shared with C09)
   * `match_replaced`         : a whole-word occurrence not preceded by an earlier match is replaced
                                by the value, and the scan resumes after it
   * `later_macro_rescanned_witness`, `dash_D_value_expanded_witness`, `uncovered_macro_expanded_witness`: since
     the repair of `replace_all` (every pass looks for macros in the line as it is then) a body naming a macro
     defined later, a -D value naming a macro and a macro name handed over as an argument expand as in C (they
     were recorded deviations before)
   * witnesses of the deviations from C that remain (stated, not hidden):
     `param_shadow_witness` (`#define x 5` then `#define F(x) x+1`: F(2) gives 5+1),
     `undef_after_definition_witness` (bodies are expanded at definition time)
  Not proved: positional substitution of function-like macro arguments (nested parentheses, nested
  calls) and equivalence with C's expansion in general; decided by the correspondence with
  cpp::process (hook H2) and an independent C-rule expander in the check (partial).
-/
import CV.Cpp
set_option linter.unusedSimpArgs false
namespace CV.C08
open CV.Cpp

/-- `name` matches at no position of `s` (with `prev` the character before `s`) -/
def noMatch (name : Str) : Option Char → Str → Bool
  | _, [] => true
  | prev, c :: cs => !wordAt name prev (c :: cs) && noMatch name (some c) cs

theorem no_match_go (name value : Str) :
    ∀ (s : Str) (prev : Option Char) (fuel : Nat), s.length < fuel → noMatch name prev s = true →
      substWordGo name value fuel prev s = (s, false) := by
  intro s
  induction s with
  | nil => intro prev fuel hf _; cases fuel <;> simp [substWordGo]
  | cons c cs ih =>
    intro prev fuel hf h
    cases fuel with
    | zero => simp at hf
    | succ f =>
      simp only [noMatch, Bool.and_eq_true, Bool.not_eq_true'] at h
      simp only [substWordGo, h.1]
      have := ih (some c) f (by simp at hf; omega) h.2
      simp [this]

/-- the name occurs nowhere as a whole word: nothing changes -/
theorem no_match_unchanged (name value s : Str) (h : noMatch name none s = true) :
    substWord name value s = (s, false) :=
  no_match_go name value s none (s.length + 1) (by omega) h

/-- preceded by a word character: not a match (never the tail of a longer identifier) -/
theorem not_inside_identifier_left (name s : Str) (p h0 : Char) (t : Str)
    (hn : name = h0 :: t) (hw : isWord h0 = true) (hp : isWord p = true) :
    wordAt name (some p) s = false := by
  subst hn
  simp [wordAt, hw, hp]

/-- followed by a word character: not a match (never the head of a longer identifier) -/
theorem not_inside_identifier_right (name rest : Str) (prev : Option Char) (n : Char)
    (hl : (name.getLast?.map isWord).getD false = true) (hn : isWord n = true) :
    wordAt name prev (name ++ n :: rest) = false := by
  unfold wordAt
  have : ((name ++ n :: rest).drop name.length).head? = some n := by simp
  simp [this, hl, hn]

theorem noMatch_of_head_absent (h0 : Char) (t : Str) :
    ∀ (s : Str) (prev : Option Char), (∀ c ∈ s, c ≠ h0) → noMatch (h0 :: t) prev s = true := by
  intro s
  induction s with
  | nil => intro _ _; simp [noMatch]
  | cons c cs ih =>
    intro prev h
    have hc : c ≠ h0 := h c (by simp)
    have : wordAt (h0 :: t) prev (c :: cs) = false := by
      simp [wordAt, List.isPrefixOf, Ne.symm hc]
    simp [noMatch, this, ih (some c) (fun x hx => h x (by simp [hx]))]

/-- literal markers are opaque to every macro named by an identifier -/
theorem markers_untouched (h0 : Char) (t value : Str) (k : Nat)
    (hid : h0.isAlpha = true ∨ h0 = '_') :
    substWord (h0 :: t) value ('@' :: (toString k).toList ++ ['@']) = ('@' :: (toString k).toList ++ ['@'], false) := by
  apply no_match_unchanged
  apply noMatch_of_head_absent
  intro c hc
  simp only [List.mem_cons, List.mem_append, List.mem_singleton, List.not_mem_nil, or_false] at hc
  have hdig : ∀ d ∈ (toString k).toList, d.isDigit = true := by
    intro d hd
    have e : (toString k).toList = Nat.toDigits 10 k := Nat.toList_repr
    rw [e] at hd
    exact Nat.isDigit_of_mem_toDigits (by decide) (by decide) hd
  intro e
  subst e
  have hat : ¬ ((('@' : Char).isAlpha = true) ∨ ('@' : Char) = '_') := by decide
  rcases hc with (hc | hc) | hc
  · subst hc; exact hat hid
  · have hd := hdig _ hc
    rcases hid with h | h
    · simp [Char.isAlpha, Char.isUpper, Char.isLower, Char.isDigit, UInt32.le_iff_toNat_le] at h hd
      omega
    · subst h; simp [Char.isDigit] at hd
  · subst hc; exact hat hid

/-- a whole-word occurrence with no earlier match is replaced, and the scan goes on behind it -/
theorem match_replaced (name value a b : Str) (prev : Option Char) (fuel : Nat)
    (hfuel : (a ++ name ++ b).length < fuel)
    (hbefore : ∀ (k : Nat), k < a.length →
      wordAt name (if k = 0 then prev else a[k - 1]?) ((a ++ name ++ b).drop k) = false)
    (hat : wordAt name (if a.length = 0 then prev else a[a.length - 1]?) (name ++ b) = true) :
    substWordGo name value fuel prev (a ++ name ++ b)
      = (a ++ value ++ (substWordGo name value (fuel - a.length - 1) name.getLast? b).1, true) := by
  induction a generalizing prev fuel with
  | nil =>
    have hne : name ≠ [] := by
      intro e; subst e; simp [wordAt] at hat
    cases fuel with
    | zero => simp at hfuel
    | succ f =>
      cases hn : name with
      | nil => exact absurd hn hne
      | cons n0 ns =>
        subst hn
        simp only [List.nil_append, List.cons_append, substWordGo]
        simp only [List.length_nil, if_true, List.nil_append, List.cons_append] at hat
        simp [hat]
  | cons x xs ih =>
    cases fuel with
    | zero => simp at hfuel
    | succ f =>
      have h0 := hbefore 0 (by simp)
      simp only [if_true, List.drop_zero] at h0
      simp only [List.cons_append, substWordGo]
      have h0' : wordAt name prev (x :: (xs ++ name ++ b)) = false := by simpa using h0
      simp only [h0', Bool.false_eq_true, if_false]
      have hrec := ih (some x) f (by simp at hfuel ⊢; omega)
        (by
          intro k hk
          have := hbefore (k + 1) (by simp; omega)
          simp only [Nat.add_one_ne_zero, if_false, Nat.add_sub_cancel, List.cons_append, List.drop_succ_cons] at this
          by_cases hk0 : k = 0
          · subst hk0; simpa using this
          · simp only [hk0, if_false]
            have e : (x :: xs)[k]? = xs[k - 1]? := by
              cases k with
              | zero => exact absurd rfl hk0
              | succ j => simp
            rw [e] at this
            exact this)
        (by
          by_cases hl : xs.length = 0
          · have : xs = [] := List.length_eq_zero_iff.mp hl
            subst this
            simpa using hat
          · simp only [hl, if_false]
            have : (x :: xs).length ≠ 0 := by simp
            simp only [this, if_false] at hat
            have e : (x :: xs)[(x :: xs).length - 1]? = xs[xs.length - 1]? := by
              have : (x :: xs).length - 1 = (xs.length - 1) + 1 := by simp; omega
              rw [this]; simp
            rw [e] at hat
            exact hat)
      simp only [hrec]
      simp

/-! ### deviations at the edges: concrete witnesses through the whole model -/

def outText : Outcome → Option String
  | .ok out _ _ => some (String.ofList out)
  | _ => none

/-- a body naming a macro that is defined later IS expanded at the use site: every pass of the substitution looks
    for macros in the line as it is then (before the repair of `replace_all` the applicable macros were determined
    on the original line once, and this gave `B`) -/
theorem later_macro_rescanned_witness :
    outText (process [] "m.c" [] "#define A B\n#define B 1\nA\n".toList) = some "1\n" := by decide +kernel

/-- `-DA=7 -DB=A`: the value of B is expanded at the use site, like the `#define B A` after `#define A 7` -/
theorem dash_D_value_expanded_witness :
    outText (process [] "m.c" [("A".toList, "7".toList), ("B".toList, "A".toList)] "B\n".toList) = some "7\n" ∧
    outText (process [] "m.c" [] "#define A 7\n#define B A\nB\n".toList) = some "7\n" := by decide +kernel

/-- a macro name that only appears once another macro has been expanded (here: handed over as an argument) is
    expanded as well -/
theorem uncovered_macro_expanded_witness :
    outText (process [] "m.c" [] "#define twice(a) (a)*2\n#define CALL(f) f(1)\nCALL(twice)\n".toList) = some "(1)*2\n" := by decide +kernel

/-- a parameter named like an earlier macro is replaced by that macro's value in the body -/
theorem param_shadow_witness :
    outText (process [] "m.c" [] "#define x 5\n#define F(x) x+1\nF(2)\n".toList) = some "5+1\n" := by decide +kernel

/-- bodies are expanded when the macro is defined: undefining a macro a body was built from does
    not change later uses (C rescans at the use site and would give `A`) -/
theorem undef_after_definition_witness :
    outText (process [] "m.c" [] "#define A 1\n#define B A\n#undef A\nB\n".toList) = some "1\n" := by decide +kernel

/-! non-vacuity -/
example : substWord "MAX".toList "9".toList "a = MAX + MAXIMUM + xMAX + MAX;".toList
    = ("a = 9 + MAXIMUM + xMAX + 9;".toList, true) := by decide

end CV.C08
