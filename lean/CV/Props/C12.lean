/-
  Property C12 — call graph and in-use set are complete.
  Model: CV.CallGraph.dfs (port of function_is_actually_in_use).

  Proved, for every call tree (cycles, self calls, callees without an entry, `main` absent) and
  every set of interrupt handlers:
   * `dfs_sound`    : everything the closure returns is reachable from the roots through the tree
   * `dfs_complete` : everything reachable is returned
   * `inUse_eq_reachable` : hence the published in-use set is exactly the reachable set
   * `reachable_via_inline` : if f's tree entry lists g and g's lists h, then h is in use whenever
     f is — why recording an inlined call under the callee's name suffices
  Not proved: that every call lowering records the call in the tree (generator code outside the
  model); checked per compiled function — every `JSR` target and every `.endofinline` expansion in
  the emitted code must be in the tree — and against the call graph of the generated source.
-/
import CV.CallGraph
set_option linter.unusedSimpArgs false
namespace CV.C12
open CV.CallGraph

/-- reachability from a set of roots through the tree -/
inductive Reach (t : Tree) (roots : List String) : String → Prop
  | root (r : String) : r ∈ roots → Reach t roots r
  | step (f g : String) : Reach t roots f → g ∈ callees t f → Reach t roots g

/-- invariant of the worklist: everything seen or pending is reachable -/
theorem dfs_sound (t : Tree) (roots : List String) :
    ∀ (n : Nat) (stack vis res : List String),
      (∀ x ∈ stack, Reach t roots x) → (∀ x ∈ vis, Reach t roots x) →
      dfs t n stack vis = some res → ∀ x ∈ res, Reach t roots x := by
  intro n
  induction n with
  | zero =>
    intro stack vis res hs hv h
    cases stack with
    | nil => simp [dfs] at h; subst h; exact hv
    | cons f st => simp [dfs] at h
  | succ n ih =>
    intro stack vis res hs hv h
    cases stack with
    | nil => simp [dfs] at h; subst h; exact hv
    | cons f st =>
      simp only [dfs] at h
      by_cases hf : f ∈ vis
      · simp only [hf, if_true] at h
        exact ih st vis res (fun x hx => hs x (by simp [hx])) hv h
      · simp only [hf, if_false] at h
        have hfr : Reach t roots f := hs f (by simp)
        refine ih _ _ res ?_ ?_ h
        · intro x hx
          rcases List.mem_append.mp hx with hx | hx
          · exact Reach.step f x hfr hx
          · exact hs x (by simp [hx])
        · intro x hx
          rcases List.mem_cons.mp hx with hx | hx
          · subst hx; exact hfr
          · exact hv x hx

/-- the other invariant: the visited set is closed under calls up to what is still pending, and
    only grows -/
theorem dfs_closed (t : Tree) :
    ∀ (n : Nat) (stack vis res : List String),
      (∀ v ∈ vis, ∀ w ∈ callees t v, w ∈ vis ∨ w ∈ stack) →
      dfs t n stack vis = some res →
      (∀ x ∈ vis, x ∈ res) ∧ (∀ x ∈ stack, x ∈ res) ∧ (∀ v ∈ res, ∀ w ∈ callees t v, w ∈ res) := by
  intro n
  induction n with
  | zero =>
    intro stack vis res hc h
    cases stack with
    | nil =>
      simp [dfs] at h; subst h
      refine ⟨fun x hx => hx, by simp, ?_⟩
      intro v hv w hw
      rcases hc v hv w hw with h1 | h1
      · exact h1
      · simp at h1
    | cons f st => simp [dfs] at h
  | succ n ih =>
    intro stack vis res hc h
    cases stack with
    | nil =>
      simp [dfs] at h; subst h
      refine ⟨fun x hx => hx, by simp, ?_⟩
      intro v hv w hw
      rcases hc v hv w hw with h1 | h1
      · exact h1
      · simp at h1
    | cons f st =>
      simp only [dfs] at h
      by_cases hf : f ∈ vis
      · simp only [hf, if_true] at h
        have := ih st vis res (by
          intro v hv w hw
          rcases hc v hv w hw with h1 | h1
          · exact Or.inl h1
          · rcases List.mem_cons.mp h1 with h2 | h2
            · subst h2; exact Or.inl hf
            · exact Or.inr h2) h
        refine ⟨this.1, ?_, this.2.2⟩
        intro x hx
        rcases List.mem_cons.mp hx with h2 | h2
        · subst h2; exact this.1 x hf
        · exact this.2.1 x h2
      · simp only [hf, if_false] at h
        have := ih (callees t f ++ st) (f :: vis) res (by
          intro v hv w hw
          rcases List.mem_cons.mp hv with h2 | h2
          · subst h2; exact Or.inr (List.mem_append.mpr (Or.inl hw))
          · rcases hc v h2 w hw with h1 | h1
            · exact Or.inl (List.mem_cons.mpr (Or.inr h1))
            · rcases List.mem_cons.mp h1 with h3 | h3
              · subst h3; exact Or.inl (List.mem_cons.mpr (Or.inl rfl))
              · exact Or.inr (List.mem_append.mpr (Or.inr h3))) h
        refine ⟨?_, ?_, this.2.2⟩
        · intro x hx; exact this.1 x (List.mem_cons.mpr (Or.inr hx))
        · intro x hx
          rcases List.mem_cons.mp hx with h2 | h2
          · subst h2; exact this.1 x (List.mem_cons.mpr (Or.inl rfl))
          · exact this.2.1 x (List.mem_append.mpr (Or.inr h2))

theorem dfs_complete (t : Tree) (roots : List String) (n : Nat) (res : List String)
    (h : dfs t n roots [] = some res) : ∀ x, Reach t roots x → x ∈ res := by
  have hc := dfs_closed t n roots [] res (by simp) h
  intro x hx
  induction hx with
  | root r hr => exact hc.2.1 r hr
  | step f g _ hg ih => exact hc.2.2 f ih g hg

/-- the published in-use set is exactly the set reachable from `main` and the interrupt handlers -/
theorem inUse_eq_reachable (t : Tree) (ints : List String) (res : List String)
    (h : inUse t ints = some res) : ∀ x, x ∈ res ↔ Reach t ("main" :: ints) x := by
  intro x
  constructor
  · intro hx
    exact dfs_sound t _ _ _ [] res (fun y hy => Reach.root y hy) (by simp) h x hx
  · exact dfs_complete t _ _ res h x

/-- a call recorded under an inline callee's name is enough -/
theorem reachable_via_inline (t : Tree) (roots : List String) (f g h : String)
    (hf : Reach t roots f) (hg : g ∈ callees t f) (hh : h ∈ callees t g) : Reach t roots h :=
  Reach.step g h (Reach.step f g hf hg) hh

/-! non-vacuity: cycle, self call, missing entry, unused function, interrupt handler -/
def demo : Tree := [("main", ["a", "b"]), ("a", ["a", "c"]), ("c", ["main"]), ("irq", ["d"]), ("unused", ["b"])]
example : inUse demo ["irq"] = some ["d", "irq", "b", "c", "a", "main"] := by decide

end CV.C12
