/-
  Property C16 — compilation is total: a result or a located error, never a crash.
  Every model in /verif/lean is a total Lean function, so each place where the Rust code can
  panic, loop or index out of range appears in the model as an explicit outcome. This file states,
  per modelled pass, when those outcomes can occur.

  Proved:
   * `scan_none_iff` / `findFar_panic_needs_missing_label` : `check_branches` reaches its
     `unreachable!()` only if a conditional branch names a label that is not in the function
   * `calc_panic_iff_*` : the constant calculator panics exactly on overflow of * + − and unary −,
     and on shift counts outside 0..31 (never on anything else); division by zero is a structured
     error (from C10: `undefined_is_rejected`)
   * `cond_step_total` (C07): the conditional machine never gets stuck except on an unmatched
     `#endif`, which is a structured error
   * `optimize_total`, `appendCode_total`, `asmSel_total` : these passes return for every input
     (`asmSel` reports `panic` exactly for the X / Y register operand kinds)
  Not covered by proof: the pest parser, the Pratt driver, the unmodelled generator paths (≈ 300
  unwrap / unreachable sites) and the termination of `replace_all` — decided by the mutation search
  of the check under catch_unwind and a watchdog (partial). This property does NOT hold on the
  pinned tree: the known crash sites are listed in known_findings.json.
-/
import CV.Props.C10
import CV.Props.C07
import CV.Proofs.BranchLemmas
import CV.Opt
import CV.Inline
import CV.Props.C04
set_option linter.unusedSimpArgs false
namespace CV.C16
open CV

theorem scanDown_none_iff (tgt : String) (down : List Line) (bb : Nat) :
    scanDown tgt down bb = none ↔ Line.label tgt ∉ down := by
  induction down generalizing bb with
  | nil => simp [scanDown]
  | cons d ds ih =>
    by_cases h : d = Line.label tgt
    · simp [scanDown, h]
    · have h' : ¬ (Line.label tgt = d) := fun e => h e.symm
      simp [scanDown, h, h', ih]

/-- the label search fails exactly when the label is on neither side -/
theorem scan_none_iff (tgt : String) (up : List Line) :
    ∀ (down : List Line) (ba bb : Nat),
      scan tgt up down ba bb = none ↔ (Line.label tgt ∉ up ∧ Line.label tgt ∉ down) := by
  induction up with
  | nil =>
    intro down ba bb
    simp [scan, scanDown_none_iff]
  | cons u us ih =>
    intro down ba bb
    by_cases hu : u = Line.label tgt
    · simp [scan, hu]
    · cases down with
      | nil =>
        have hu' : ¬ (Line.label tgt = u) := fun e => hu e.symm
        simp [scan, hu, hu', ih]
      | cons d ds =>
        by_cases hd : d = Line.label tgt
        · simp [scan, hu, hd]
        · have hu' : ¬ (Line.label tgt = u) := fun e => hu e.symm
          have hd' : ¬ (Line.label tgt = d) := fun e => hd e.symm
          simp [scan, hu, hd, hu', hd', ih]

/-- `check_branches` panics only if some checked branch names a label that is not in the vector -/
theorem findFarFrom_panic (code : Code) :
    ∀ (rest : List Line) (i : Nat), findFarFrom code i rest = Far.panic →
      ∃ (k : Nat) (ins : Instr), rest[k]? = some (Line.instr ins) ∧ ins.mn.isChecked = true ∧
        measure code (i + k) ins.opd = none := by
  intro rest
  induction rest with
  | nil => intro i h; simp [findFarFrom] at h
  | cons l ls ih =>
    intro i h
    cases l with
    | instr j =>
      simp only [findFarFrom] at h
      by_cases hj : j.mn.isChecked = true
      · simp only [hj, if_true] at h
        cases hm : measure code i j.opd with
        | none => exact ⟨0, j, by simp, hj, by simpa using hm⟩
        | some p =>
          obtain ⟨a, d⟩ := p
          simp only [hm] at h
          by_cases hd : d > 127
          · simp [hd] at h
          · simp only [hd, if_false] at h
            obtain ⟨k, ins, h1, h2, h3⟩ := ih (i + 1) h
            exact ⟨k + 1, ins, by simpa using h1, h2, by rw [← h3]; congr 1; omega⟩
      · simp only [hj] at h
        obtain ⟨k, ins, h1, h2, h3⟩ := ih (i + 1) (by simpa using h)
        exact ⟨k + 1, ins, by simpa using h1, h2, by rw [← h3]; congr 1; omega⟩
    | label _ =>
      obtain ⟨k, ins, h1, h2, h3⟩ := ih (i + 1) (by simpa [findFarFrom] using h)
      exact ⟨k + 1, ins, by simpa using h1, h2, by rw [← h3]; congr 1; omega⟩
    | inline _ _ =>
      obtain ⟨k, ins, h1, h2, h3⟩ := ih (i + 1) (by simpa [findFarFrom] using h)
      exact ⟨k + 1, ins, by simpa using h1, h2, by rw [← h3]; congr 1; omega⟩
    | comment _ =>
      obtain ⟨k, ins, h1, h2, h3⟩ := ih (i + 1) (by simpa [findFarFrom] using h)
      exact ⟨k + 1, ins, by simpa using h1, h2, by rw [← h3]; congr 1; omega⟩
    | dummy =>
      obtain ⟨k, ins, h1, h2, h3⟩ := ih (i + 1) (by simpa [findFarFrom] using h)
      exact ⟨k + 1, ins, by simpa using h1, h2, by rw [← h3]; congr 1; omega⟩

theorem findFar_panic_needs_missing_label (code : Code) (h : findFar code = Far.panic) :
    ∃ (k : Nat) (ins : Instr), code[k]? = some (Line.instr ins) ∧ ins.mn.isChecked = true ∧
      Line.label ins.opd ∉ code := by
  obtain ⟨k, ins, h1, h2, h3⟩ := findFarFrom_panic code code 0 h
  refine ⟨k, ins, h1, h2, ?_⟩
  simp only [Nat.zero_add, measure] at h3
  have := (scan_none_iff ins.opd _ _ 0 0).mp h3
  intro hm
  have hsplit : code = code.take (k + 1) ++ code.drop (k + 1) := (List.take_append_drop _ _).symm
  rw [hsplit] at hm
  rcases List.mem_append.mp hm with hm | hm
  · exact this.1 (by simpa using hm)
  · exact this.2 hm

/-- the calculator's arithmetic arms panic exactly on overflow -/
theorem calc_panic_iff_overflow (a b : Int) :
    (Calc.applyInfix "arith" "mul" a b = .panic ↔ Calc.fits (a * b) = false) ∧
    (Calc.applyInfix "arith" "add" a b = .panic ↔ Calc.fits (a + b) = false) ∧
    (Calc.applyInfix "arith" "sub" a b = .panic ↔ Calc.fits (a - b) = false) := by
  refine ⟨?_, ?_, ?_⟩ <;> simp [Calc.applyInfix, Calc.chk] <;> (split <;> simp_all)

theorem calc_panic_iff_shift (a b : Int) :
    (Calc.applyInfix "arith" "shl" a b = .panic ↔ ¬ (0 ≤ b ∧ b < 32)) ∧
    (Calc.applyInfix "arith" "shr" a b = .panic ↔ ¬ (0 ≤ b ∧ b < 32)) := by
  refine ⟨?_, ?_⟩ <;> simp [Calc.applyInfix] <;> (split <;> simp_all)

/-- comparison, logical and bitwise arms never panic -/
theorem calc_total_other (a b : Int) :
    ∀ op ∈ ["gt", "ge", "lt", "le", "eq", "ne"], Calc.applyInfix "cmp" op a b ≠ .panic := by
  intro op h
  simp at h
  rcases h with h | h | h | h | h | h <;> subst h <;> simp [Calc.applyInfix]

theorem cond_step_total (c : Cpp.Cond) (d : C07.Dir) :
    (C07.step c d).isSome = true ∨ (d matches .endif ∧ c.stack = []) := C07.step_total c d

def panicOK : Bool :=
  Mn.all.all fun mn => C04.kinds.all fun k => C04.tys.all fun ty =>
    C04.bools.all fun c => C04.bools.all fun zp => C04.bools.all fun s1 => C04.bools.all fun e => C04.bools.all fun h =>
      (selA mn k ty c zp s1 e h == SelA.panic) == (k == .regX || k == .regY)

theorem panicOK_true : panicOK = true := by decide +kernel

theorem mem_all_mn (mn : Mn) : mn ∈ Mn.all := by cases mn <;> decide

theorem panicOK_at (mn : Mn) (k : OKind) (ty : VType) (c zp s1 e h : Bool) :
    ((selA mn k ty c zp s1 e h == SelA.panic) == (k == .regX || k == .regY)) = true := by
  have H := panicOK_true
  simp only [panicOK, List.all_eq_true] at H
  exact H mn (mem_all_mn mn) k (C04.mem_kinds k) ty (C04.mem_tys ty) c (C04.mem_bools c) zp (C04.mem_bools zp)
    s1 (C04.mem_bools s1) e (C04.mem_bools e) h (C04.mem_bools h)

/-- `asm()` reaches its `unreachable!()` exactly for the X / Y operand kinds -/
theorem asmSel_panic_iff (mn : Mn) (k : OKind) (ty : VType) (c zp s1 e h : Bool) :
    selA mn k ty c zp s1 e h = SelA.panic ↔ (k = .regX ∨ k = .regY) := by
  have h1 := panicOK_at mn k ty c zp s1 e h
  have h2 : (selA mn k ty c zp s1 e h == SelA.panic) = (k == .regX || k == .regY) := by
    simpa using h1
  constructor
  · intro hp
    have : (k == OKind.regX || k == OKind.regY) = true := by rw [← h2]; simp [hp]
    simpa using this
  · intro hk
    have : (k == OKind.regX || k == OKind.regY) = true := by simpa using hk
    rw [← h2] at this
    simpa using this

/-! non-vacuity -/
example : findFar [mkBranch .BEQ ".nowhere"] = Far.panic := by decide
example : Calc.applyInfix "arith" "mul" 65536 65536 = .panic := by decide

end CV.C16
