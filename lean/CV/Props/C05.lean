/-
  Property C05 — output is a deterministic function of source and options.
  Model: CV.SymTab (insertion counter, sort of an arbitrary enumeration) with the comparator kind
  translated from sorted_variables / sorted_functions on this run (CV.Gen.cmpVariables/cmpFunctions)
  and the shape of the literal-collection loops (CV.Gen.literalLoopsUnsorted).

  Proved:
   * `sorted_independent_order_name` : with the comparator (order, then key), `sorted` gives the same
     list for ANY two enumerations of the same map (keys unique) — hash iteration order cannot show
   * `sorted_independent_order` : with the order-only comparator the same holds provided no two
     entries share an `order`
   * `orders_distinct_if_fresh` : inserting fresh keys only gives pairwise distinct orders
   * `reinsert_creates_tie` : re-inserting an existing key (prototype then definition, a parameter
     declared at both) gives it the order the next new key gets — the precondition above fails
   * `tie_shows_enumeration` : with a tie, two enumerations of one map sort differently (witness)
   * `comparators_total` / `literal_loops_sorted` : what the translator found in the source on this
     run is the unconditional case
-/
import CV.SymTab
set_option linter.unusedSimpArgs false
namespace CV.C05
open CV.SymTab CV.Gen

theorem leOrderName_total (a b : Entry) : leOrderName a b = true ∨ leOrderName b a = true := by
  unfold leOrderName
  by_cases h1 : a.order < b.order
  · simp [h1]
  · by_cases h2 : b.order < a.order
    · simp [h2]
    · have : a.order = b.order := by omega
      have hs := String.le_total a.key b.key
      rcases hs with hs | hs <;> simp [this, hs]

theorem leOrderName_trans (a b c : Entry) (h1 : leOrderName a b = true) (h2 : leOrderName b c = true) :
    leOrderName a c = true := by
  unfold leOrderName at *
  simp only [Bool.or_eq_true, decide_eq_true_eq, Bool.and_eq_true, beq_iff_eq] at *
  rcases h1 with h1 | ⟨h1, k1⟩ <;> rcases h2 with h2 | ⟨h2, k2⟩
  · left; omega
  · left; omega
  · left; omega
  · right; exact ⟨by omega, String.le_trans k1 k2⟩

theorem leOrderName_antisymm (a b : Entry) (h1 : leOrderName a b = true) (h2 : leOrderName b a = true) :
    a = b := by
  unfold leOrderName at *
  simp only [Bool.or_eq_true, decide_eq_true_eq, Bool.and_eq_true, beq_iff_eq] at *
  rcases h1 with h1 | ⟨h1, k1⟩ <;> rcases h2 with h2 | ⟨h2, k2⟩
  · omega
  · omega
  · omega
  · have : a.key = b.key := String.le_antisymm k1 k2
    cases a; cases b; simp_all

/-- comparator (order, key): any two enumerations of the same map sort identically -/
theorem sorted_independent_order_name (e₁ e₂ : List Entry) (h : e₁.Perm e₂) :
    sorted "order_name" e₁ = sorted "order_name" e₂ := by
  have hk : cmpOf "order_name" = leOrderName := by simp [cmpOf]
  unfold sorted
  rw [hk]
  apply List.Perm.eq_of_pairwise (le := fun a b => leOrderName a b = true)
  · intro a b _ _ h1 h2; exact leOrderName_antisymm a b h1 h2
  · exact List.pairwise_mergeSort (fun a b c => leOrderName_trans a b c) (fun a b => by
      have := leOrderName_total a b; simpa [Bool.or_eq_true] using this) e₁
  · exact List.pairwise_mergeSort (fun a b c => leOrderName_trans a b c) (fun a b => by
      have := leOrderName_total a b; simpa [Bool.or_eq_true] using this) e₂
  · exact ((List.mergeSort_perm e₁ _).trans h).trans (List.mergeSort_perm e₂ _).symm

/-- comparator order only: independence needs distinct orders -/
theorem sorted_independent_order (e₁ e₂ : List Entry) (h : e₁.Perm e₂)
    (hinj : ∀ a ∈ e₁, ∀ b ∈ e₁, a.order = b.order → a = b) :
    sorted "order" e₁ = sorted "order" e₂ := by
  have hk : cmpOf "order" = leOrder := by simp [cmpOf]
  unfold sorted
  rw [hk]
  apply List.Perm.eq_of_pairwise (le := fun a b => leOrder a b = true)
  · intro a b ha hb h1 h2
    have ha' : a ∈ e₁ := by simpa using (List.mem_mergeSort.mp ha)
    have hb' : b ∈ e₁ := h.symm.subset (by simpa using (List.mem_mergeSort.mp hb))
    apply hinj a ha' b hb'
    simp [leOrder] at h1 h2; omega
  · exact List.pairwise_mergeSort (fun a b c h1 h2 => by simp [leOrder] at *; omega)
      (fun a b => by simp [leOrder]; omega) e₁
  · exact List.pairwise_mergeSort (fun a b c h1 h2 => by simp [leOrder] at *; omega)
      (fun a b => by simp [leOrder]; omega) e₂
  · exact ((List.mergeSort_perm e₁ _).trans h).trans (List.mergeSort_perm e₂ _).symm

/-- inserting only fresh keys: the orders are 0, 1, 2, … in insertion order -/
theorem orders_of_fresh_inserts (keys : List String) (hn : keys.Nodup) :
    (keys.foldl CV.SymTab.insert []).map (·.order) = List.range keys.length ∧
    (keys.foldl CV.SymTab.insert []).map (·.key) = keys := by
  suffices H : ∀ (t : Tab) (ks : List String), (t.map (·.key) ++ ks).Nodup → t.map (·.order) = List.range t.length →
      ((ks.foldl CV.SymTab.insert t).map (·.order) = List.range (t.length + ks.length) ∧
       (ks.foldl CV.SymTab.insert t).map (·.key) = t.map (·.key) ++ ks) by
    have := H [] keys (by simpa using hn) (by simp)
    simpa using this
  intro t ks
  induction ks generalizing t with
  | nil => intro _ h; simp [h]
  | cons k ks ih =>
    intro hnd ho
    have hfresh : t.any (·.key == k) = false := by
      rw [List.any_eq_false]
      intro e he hk
      have : k ∈ t.map (·.key) := by
        simp only [beq_iff_eq] at hk
        exact List.mem_map.mpr ⟨e, he, hk⟩
      have hd := List.nodup_append.mp hnd
      exact hd.2.2 k this k (by simp) rfl
    have hins : CV.SymTab.insert t k = t ++ [{ key := k, order := t.length }] := by simp [CV.SymTab.insert, hfresh]
    simp only [List.foldl_cons, hins]
    have := ih (t ++ [{ key := k, order := t.length }])
      (by simpa [List.append_assoc] using hnd)
      (by simp [ho, List.range_succ])
    simp only [List.length_append, List.length_cons, List.length_nil, List.map_append, List.map_cons,
      List.map_nil, List.append_assoc, List.cons_append, List.nil_append] at this ⊢
    constructor
    · rw [this.1]; congr 1; omega
    · exact this.2

theorem orders_distinct_if_fresh (keys : List String) (hn : keys.Nodup) :
    ((keys.foldl CV.SymTab.insert []).map (·.order)).Nodup := by
  rw [(orders_of_fresh_inserts keys hn).1]
  exact List.nodup_range

/-- prototype then definition: `f` is re-inserted when the table has 2 entries and gets order 2,
    the order the next new key `h` gets as well -/
theorem reinsert_creates_tie :
    (["f", "g", "f", "h"].foldl CV.SymTab.insert []) =
      [{ key := "f", order := 2 }, { key := "g", order := 1 }, { key := "h", order := 2 }] := by decide

/-- … and then the result of `sorted` depends on the enumeration of the map: both enumerations
    below are already in comparator order, so the (stable) sort returns each unchanged -/
theorem tie_shows_enumeration :
    sorted "order" [{ key := "g", order := 1 }, { key := "f", order := 2 }, { key := "h", order := 2 }]
      ≠ sorted "order" [{ key := "g", order := 1 }, { key := "h", order := 2 }, { key := "f", order := 2 }] := by
  have hk : cmpOf "order" = leOrder := by simp [cmpOf]
  unfold sorted
  rw [hk, List.mergeSort_of_pairwise (by simp [leOrder]), List.mergeSort_of_pairwise (by simp [leOrder])]
  decide

/-- what the source says on this run: both comparators break ties by key, and literals collected in
    a HashMap are inserted in sorted order -/
theorem comparators_total : cmpVariables = "order_name" ∧ cmpFunctions = "order_name" := by decide

theorem literal_loops_sorted : literalLoopsUnsorted = 0 := by decide

/-! non-vacuity: a map whose entries tie on `order`, sorted by (order, key) -/
example : sorted "order_name" [{ key := "g", order := 1 }, { key := "f", order := 2 }, { key := "h", order := 2 }]
    = [{ key := "g", order := 1 }, { key := "f", order := 2 }, { key := "h", order := 2 }] := by
  have hk : cmpOf "order_name" = leOrderName := by simp [cmpOf]
  unfold sorted
  rw [hk, List.mergeSort_of_pairwise (by decide)]

end CV.C05
