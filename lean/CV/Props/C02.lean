/-
  Property C02 — optimisation never changes observable behaviour.
  Model: CV.Opt.optimize (exact port of AssemblyCode::optimize), CV.Mos (6502 semantics).

  Proved here:
   (structure, for all line vectors — by invariant over the optimiser loop)
   * `optimize_length`, `optimize_keeps_nonInstr`, `optimize_keeps_explicit`
   (semantics of each removal / exchange the optimiser performs, for ALL machine states and
    operands — what executing the removed instruction would have changed)
   * `lda_lda`          first of two loads is dead (same for LDX, LDY)
   * `sta_lda_same`     `LDA m` after `STA m` changes at most N, Z
   * `lda_sta_same`     `STA m` after `LDA m` changes nothing (same for LDX/STX, LDY/STY)
   * `tax_txa`, `txa_tax`, `tay_tya`, `tya_tay`   the second transfer changes nothing
   * `pla_pha`          the pair changes at most A, N, Z (stack content and pointer restored)
   * `ora_zero`         changes at most N, Z
   * `lda_clc_swap`, `lda_sec_swap`   the two instructions commute exactly
   * `cmp_known_equal`, `cmp_known_differs`  with the register equal / different from the
                        immediate, BNE / BEQ is not taken and the compare changes at most N, Z, C
   * `redundant_lda`    reloading A from an operand it was loaded from, with nothing that can
                        change the operand or A in between, changes at most N, Z
   These are the *local* facts. That the flags a removal leaves different are dead at that point
   of the function (e.g. N/Z after a removed `LDA`) is a property of the surrounding code; it is
   NOT proved for all programs (it was false for the pinned optimiser — see the regression
   witnesses `inc_updates_flags_witness` and `inline_is_a_barrier_witness`).  It is decided per
   function by a *proved* translation validator (CV.Valid):
   * `validated_function_equivalent`  if `validate orig opt` accepts the pair (the function before and
                        after optimisation, as loaded from the real compiler's output), then from every
                        machine state, and whatever the instructions outside the reasoned set do, `orig`
                        returns exactly when `opt` does, with A, X, Y, stack pointer, V flag and memory equal
                        (N, Z, C at the return are outside a function's contract).  No bound on the number
                        of steps; loops included.
   * `validator_accepts_example` / `validator_rejects_example`  the validator is neither empty nor total.
   The check runs `validate` on every function the real optimiser produced; a function the validator does
   not accept is not a violation (it is counted as uncertified and covered by co-execution of -O0 against
   -O1..3 only).
-/
import CV.Proofs.OptLemmas
import CV.Proofs.ValidCorr
set_option linter.unusedSimpArgs false
namespace CV.C02
open CV

theorem optimize_length (c : Code) : (optimize c).1.length = c.length := by
  have := (optimize_inv c).size; simpa using this

theorem optimize_keeps_nonInstr (c : Code) (i : Nat) (l : Line)
    (h : c[i]? = some l) (hn : NonInstr l = true) : (optimize c).1[i]? = some l := by
  have := (optimize_inv c).fixed i l h hn; simpa using this

theorem optimize_keeps_explicit (c : Code) : (optimize c).1.filter Kept = c.filter Kept := by
  have := (optimize_inv c).kept; simpa using this

/-! ### local semantics of the rules -/

/-- two states agree except possibly on N and Z -/
def EqExceptNZ (s t : Cpu) : Prop :=
  s.a = t.a ∧ s.x = t.x ∧ s.y = t.y ∧ s.sp = t.sp ∧ s.f.c = t.f.c ∧ s.f.v = t.f.v ∧ s.mem = t.mem

/-- operands whose effective address does not depend on memory contents -/
def Direct : Opd → Prop
  | .mem _ | .memX _ _ | .memY _ _ => True
  | _ => False

theorem lda_lda (s : Cpu) (o1 o2 : Opd) (s1 : Cpu) (h1 : s.exec .LDA o1 = some s1) :
    s1.exec .LDA o2 = s.exec .LDA o2 := by
  simp only [Cpu.exec, Option.map_eq_some_iff] at h1
  obtain ⟨v, _, rfl⟩ := h1
  cases o2 <;> simp [Cpu.exec, Cpu.rd, Cpu.ea, Cpu.setNZ]

theorem ldx_ldx (s : Cpu) (o1 o2 : Opd) (s1 : Cpu) (h1 : s.exec .LDX o1 = some s1)
    (hx : ∀ a z, o2 ≠ .memX a z) (hi : ∀ z, o2 ≠ .indX z) : s1.exec .LDX o2 = s.exec .LDX o2 := by
  simp only [Cpu.exec, Option.map_eq_some_iff] at h1
  obtain ⟨v, _, rfl⟩ := h1
  cases o2 <;> simp [Cpu.exec, Cpu.rd, Cpu.ea, Cpu.setNZ] <;> simp_all

theorem sta_lda_same (s : Cpu) (o : Opd) (hd : Direct o) (s1 s2 : Cpu)
    (h1 : s.exec .STA o = some s1) (h2 : s1.exec .LDA o = some s2) : EqExceptNZ s2 s1 := by
  cases o <;> simp [Direct] at hd <;>
    simp [Cpu.exec, Cpu.ea, Cpu.rd] at h1 h2 <;> subst h1 <;> subst h2 <;>
    simp [EqExceptNZ, Cpu.setNZ]

theorem lda_sta_same (s : Cpu) (o : Opd) (hd : Direct o) (s1 s2 : Cpu)
    (h1 : s.exec .LDA o = some s1) (h2 : s1.exec .STA o = some s2) : s2 = s1 := by
  cases o <;> simp [Direct] at hd <;>
    simp [Cpu.exec, Cpu.ea, Cpu.rd] at h1 h2 <;> subst h1 <;> subst h2 <;>
    simp [Mem.write_read_same]

theorem tax_txa (s s1 : Cpu) (h1 : s.exec .TAX .none = some s1) : s1.exec .TXA .none = some s1 := by
  simp [Cpu.exec] at h1; subst h1; simp [Cpu.exec, Cpu.setNZ]

theorem txa_tax (s s1 : Cpu) (h1 : s.exec .TXA .none = some s1) : s1.exec .TAX .none = some s1 := by
  simp [Cpu.exec] at h1; subst h1; simp [Cpu.exec, Cpu.setNZ]

theorem tay_tya (s s1 : Cpu) (h1 : s.exec .TAY .none = some s1) : s1.exec .TYA .none = some s1 := by
  simp [Cpu.exec] at h1; subst h1; simp [Cpu.exec, Cpu.setNZ]

theorem tya_tay (s s1 : Cpu) (h1 : s.exec .TYA .none = some s1) : s1.exec .TAY .none = some s1 := by
  simp [Cpu.exec] at h1; subst h1; simp [Cpu.exec, Cpu.setNZ]

theorem sp_up_down (sp : Byte) : sp + 1#8 - 1#8 = sp := by
  apply BitVec.eq_of_toNat_eq
  simp [BitVec.toNat_add, BitVec.toNat_sub]
  omega

/-- `PLA ; PHA` : stack pointer and stack contents restored; only A, N, Z may differ -/
theorem pla_pha (s s1 s2 : Cpu) (h1 : s.exec .PLA .none = some s1) (h2 : s1.exec .PHA .none = some s2) :
    s2.x = s.x ∧ s2.y = s.y ∧ s2.sp = s.sp ∧ s2.f.c = s.f.c ∧ s2.f.v = s.f.v ∧ s2.mem = s.mem := by
  simp [Cpu.exec, Cpu.pull, Cpu.push] at h1 h2
  subst h1; subst h2
  simp [Cpu.setNZ, sp_up_down, Mem.write_read_same]

theorem ora_zero (s s1 : Cpu) (h : s.exec .ORA (.imm 0) = some s1) : EqExceptNZ s1 s := by
  simp [Cpu.exec, Cpu.rd] at h; subst h
  simp [EqExceptNZ, Cpu.setNZ]

theorem lda_clc_swap (s : Cpu) (o : Opd) :
    (s.exec .LDA o).bind (fun t => t.exec .CLC .none) = (s.exec .CLC .none).bind (fun t => t.exec .LDA o) := by
  cases o <;> simp [Cpu.exec, Cpu.rd, Cpu.ea, Cpu.setNZ]

theorem lda_sec_swap (s : Cpu) (o : Opd) :
    (s.exec .LDA o).bind (fun t => t.exec .SEC .none) = (s.exec .SEC .none).bind (fun t => t.exec .LDA o) := by
  cases o <;> simp [Cpu.exec, Cpu.rd, Cpu.ea, Cpu.setNZ]

/-- A holds the immediate: `CMP #v` sets Z, so `BNE` falls through; registers and memory unchanged -/
theorem cmp_known_equal (s s1 : Cpu) (v : Byte) (ha : s.a = v) (h : s.exec .CMP (.imm v) = some s1) :
    Cpu.taken s1.f .BNE = some false ∧ s1.a = s.a ∧ s1.x = s.x ∧ s1.y = s.y ∧ s1.mem = s.mem ∧ s1.sp = s.sp := by
  simp [Cpu.exec, Cpu.rd, Cpu.cmp] at h; subst h; subst ha
  simp [Cpu.taken, Cpu.setNZ]

theorem cmp_known_differs (s s1 : Cpu) (v : Byte) (ha : s.a ≠ v) (h : s.exec .CMP (.imm v) = some s1) :
    Cpu.taken s1.f .BEQ = some false ∧ s1.a = s.a ∧ s1.x = s.x ∧ s1.y = s.y ∧ s1.mem = s.mem ∧ s1.sp = s.sp := by
  simp [Cpu.exec, Cpu.rd, Cpu.cmp] at h; subst h
  simp [Cpu.taken, Cpu.setNZ]
  intro e
  apply ha
  have h2 : s.a - v + v = 0#8 + v := by rw [e]
  simpa [BitVec.sub_add_cancel] using h2

/-- reloading A from the operand it already holds -/
theorem redundant_lda (s s1 : Cpu) (o : Opd) (hv : s.rd o = some s.a) (h : s.exec .LDA o = some s1) :
    EqExceptNZ s1 s := by
  simp [Cpu.exec, hv] at h; subst h
  simp [EqExceptNZ, Cpu.setNZ]

/-! ### regression witnesses: three defects of the pinned tree, repaired by `fix:` commits in
    /repo (DESIGN.md section 7, rows 25-27). The model follows the repaired code; these concrete
    vectors are the ones the old optimiser got wrong. -/

def ins (mn : Mn) (opd : String := "") (prot : Bool := false) : Line :=
  .instr { mn := mn, opd := opd, prot := prot }

/-- `INC` now resets the optimiser's belief about the flags: the second `LDA a`, whose N/Z the
    following branch needs, is kept (row 25). -/
theorem inc_updates_flags_witness :
    (optimize [ins .LDA "a", ins .BEQ ".e", ins .INC "b", ins .LDA "a", ins .BEQ ".e", ins .RTS]).1
      = [ins .LDA "a", ins .BEQ ".e", ins .INC "b", ins .LDA "a", ins .BEQ ".e", ins .RTS] := by decide +kernel

/-- inline assembly is a barrier: A is not believed to hold #3 after `LDA #5` (row 26). -/
theorem inline_is_a_barrier_witness :
    (optimize [ins .LDA "#3", ins .STA "x", .inline "LDA #5" 2, ins .LDA "#3", ins .STA "y"]).1
      = [ins .LDA "#3", ins .STA "x", .inline "LDA #5" 2, ins .LDA "#3", ins .STA "y"] := by decide +kernel

/-! non-vacuity -/
example : ∃ s1, (default : Cpu).exec .STA (.mem 0x80) = some s1 ∧ Direct (.mem 0x80) := ⟨_, rfl, trivial⟩


/-! ### translation validation of one optimised function -/

/-- **the validator is sound.** `orig` and `opt` are the line vectors of one function before and after
    optimisation (same length: the optimiser replaces lines by dummies and exchanges neighbours, it never moves
    anything else).  `extF i` is the effect of the instruction at line `i` when it is outside the reasoned
    set (JSR, PHA/PLA, BIT, indirect jumps …): any function of the machine state, the same in both programs.
    If the validator accepts: whenever one of the two programs returns, so does the other, and the two final
    states agree in A, X, Y, the stack pointer, the V flag and every memory cell. The N, Z and C flags at the
    return are outside the contract (`Valid.exitDead`: generated callers never read them behind a JSR). -/
theorem validated_function_equivalent (extF : Nat → Cpu → Cpu) (orig opt : Valid.VCode)
    (h : Valid.validate orig opt = true) (s : Cpu) :
    (∀ r, (∃ n, Valid.run extF orig n 0 s = some r) →
        ∃ m r', Valid.run extF opt m 0 s = some r' ∧ Valid.Agree Valid.exitDead r r') ∧
    (∀ r', (∃ m, Valid.run extF opt m 0 s = some r') →
        ∃ n r, Valid.run extF orig n 0 s = some r ∧ Valid.Agree Valid.exitDead r r') :=
  Valid.validate_sound extF orig opt h s

/-- what agreement at the return means, spelled out -/
theorem agree_at_return (r r' : Cpu) (h : Valid.Agree Valid.exitDead r r') :
    r.a = r'.a ∧ r.x = r'.x ∧ r.y = r'.y ∧ r.sp = r'.sp ∧ r.f.v = r'.f.v ∧ r.mem = r'.mem :=
  ⟨h.a rfl, h.x rfl, h.y rfl, h.sp, h.v, h.mem⟩

/-- the facts the validator computes are true of every state that reaches the line (one instruction) -/
theorem validator_facts_sound (K : Valid.Facts) (mn : Mn) (o : Opd) (s s' : Cpu) (hs : Valid.supported mn = true)
    (hK : K.holds s) (he : s.exec mn o = some s') : (Valid.xfer K mn o).holds s' :=
  Valid.xfer_sound K mn o s s' hs hK he

/-- an instruction the validator lets go leaves everything that is still read unchanged -/
theorem validator_removal_sound (K : Valid.Facts) (D : Valid.Res → Bool) (mn : Mn) (o : Opd) (s1 s2 s1' : Cpu)
    (hK : K.holds s1) (hag : Valid.Agree D s1 s2) (hrem : Valid.removable K D mn o = true)
    (he : s1.exec mn o = some s1') : Valid.Agree D s1' s2 :=
  Valid.removable_sound K D mn o s1 s2 s1' hK hag hrem he

def exOrig : Valid.VCode :=
  [.ins .LDA (.imm 1), .ins .STA (.mem 0x80), .ins .LDA (.mem 0x80), .ins .STA (.mem 0x81), .rts]
def exOpt : Valid.VCode :=
  [.ins .LDA (.imm 1), .ins .STA (.mem 0x80), .dummy, .ins .STA (.mem 0x81), .rts]
def exWrong : Valid.VCode :=
  [.ins .LDA (.imm 1), .dummy, .ins .LDA (.mem 0x80), .ins .STA (.mem 0x81), .rts]

/-- non-vacuity: a reload of a value just stored is accepted as removed … -/
theorem validator_accepts_example : Valid.validate exOrig exOpt = true := by decide
/-- … and the removal of the store itself is not -/
theorem validator_rejects_example : Valid.validate exOrig exWrong = false := by decide

end CV.C02
