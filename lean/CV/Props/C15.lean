/-
  Property C15 — equivalent source forms behave identically.
  Models: CV.GenFlat (generator port + source-level meaning `spec`), theorem C01.gen_stmt_correct.

  Proved (for the declared fragment of C01; every layout, every machine state):
   * source-level laws of the meaning function: `comm_law` (operands of + & | ^ commute),
     `opassign_law` (x ∘= e ≡ x = x ∘ e), `incr_law` / `decr_law` (++x ≡ x += 1, --x ≡ x -= 1)
   * `compiled_equiv` : whenever two statements have the same source-level meaning, the code the
     generator emits for them ends in the same memory, X, Y, SP from every state — instantiated for
     each law above (`compiled_comm`, `compiled_opassign`, `compiled_incr`)
  Not proved: the rewrites that need control flow, arrays or calls (if/else swap with negated
  condition, a < b vs b > a, for vs while, switch vs if-chain, register vs constant index, call vs
  body in place); they are decided by metamorphic co-execution in the check (partial).
-/
import CV.Props.C01
set_option linter.unusedSimpArgs false
namespace CV.C15
open CV CV.GenFlat CV.C01

theorem comm_law (L : Layout) (m : Mem) (v : String) (op : BOp) (a b : Atom) (h : op.commutes = true) :
    spec L m (.bin v op a b) = spec L m (.bin v op b a) := by
  cases op <;> simp [BOp.commutes] at h <;>
    simp [spec, BOp.apply, BitVec.add_comm, BitVec.and_comm, BitVec.or_comm, BitVec.xor_comm]

theorem opassign_law (L : Layout) (m : Mem) (v : String) (op : BOp) (a : Atom) :
    spec L m (.opasg v op a) = spec L m (.bin v op (.var v) a) := by
  simp [spec, val]

theorem incr_law (L : Layout) (m : Mem) (v : String) :
    spec L m (.inc v) = spec L m (.opasg v .add (.const 1)) := by
  simp [spec, val, BOp.apply]

theorem decr_law (L : Layout) (m : Mem) (v : String) :
    spec L m (.dec v) = spec L m (.opasg v .sub (.const 1)) := by
  simp [spec, val, BOp.apply]

/-- two spellings with the same meaning compile to code with the same effect, from every state -/
theorem compiled_equiv (L : Layout) (s₁ s₂ : FStmt) (c : Cpu)
    (hsame : spec L c.mem s₁ = spec L c.mem s₂) :
    ∃ c₁ c₂, execSeq c (genOps L s₁) = some c₁ ∧ execSeq c (genOps L s₂) = some c₂ ∧
      c₁.mem = c₂.mem ∧ c₁.x = c₂.x ∧ c₁.y = c₂.y ∧ c₁.sp = c₂.sp := by
  obtain ⟨c₁, h1, m1, x1, y1, p1⟩ := gen_stmt_correct L s₁ c
  obtain ⟨c₂, h2, m2, x2, y2, p2⟩ := gen_stmt_correct L s₂ c
  exact ⟨c₁, c₂, h1, h2, by rw [m1, m2, hsame], by rw [x1, x2], by rw [y1, y2], by rw [p1, p2]⟩

theorem compiled_comm (L : Layout) (c : Cpu) (v : String) (op : BOp) (a b : Atom) (h : op.commutes = true) :
    ∃ c₁ c₂, execSeq c (genOps L (.bin v op a b)) = some c₁ ∧ execSeq c (genOps L (.bin v op b a)) = some c₂ ∧
      c₁.mem = c₂.mem ∧ c₁.x = c₂.x ∧ c₁.y = c₂.y ∧ c₁.sp = c₂.sp :=
  compiled_equiv L _ _ c (comm_law L c.mem v op a b h)

theorem compiled_opassign (L : Layout) (c : Cpu) (v : String) (op : BOp) (a : Atom) :
    ∃ c₁ c₂, execSeq c (genOps L (.opasg v op a)) = some c₁ ∧ execSeq c (genOps L (.bin v op (.var v) a)) = some c₂ ∧
      c₁.mem = c₂.mem ∧ c₁.x = c₂.x ∧ c₁.y = c₂.y ∧ c₁.sp = c₂.sp :=
  compiled_equiv L _ _ c (opassign_law L c.mem v op a)

theorem compiled_incr (L : Layout) (c : Cpu) (v : String) :
    ∃ c₁ c₂, execSeq c (genOps L (.inc v)) = some c₁ ∧ execSeq c (genOps L (.opasg v .add (.const 1))) = some c₂ ∧
      c₁.mem = c₂.mem ∧ c₁.x = c₂.x ∧ c₁.y = c₂.y ∧ c₁.sp = c₂.sp :=
  compiled_equiv L _ _ c (incr_law L c.mem v)

/-! non-vacuity: the two spellings really are different code -/
example : genText (.inc "a") ≠ genText (.opasg "a" .add (.const 1)) := by decide
example : genText (.bin "c" .add (.var "a") (.var "b")) ≠ genText (.bin "c" .add (.var "b") (.var "a")) := by decide

end CV.C15
