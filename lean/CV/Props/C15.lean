/-
  Property C15 — equivalent source forms behave identically.
  Models: CV.GenFlat (generator port + source-level meaning `spec`), theorem C01.gen_stmt_correct.

  Proved (for the declared fragment of C01; every layout, every machine state):
   * source-level laws of the meaning function: `comm_law` (operands of + & | ^ commute),
     `opassign_law` (x ∘= e ≡ x = x ∘ e), `incr_law` / `decr_law` (++x ≡ x += 1, --x ≡ x -= 1)
   * `compiled_equiv` : whenever two statements have the same source-level meaning, the code the
     generator emits for them ends in the same memory, X, Y, SP from every state — instantiated for
     each law above (`compiled_comm`, `compiled_opassign`, `compiled_incr`)
   * stage 2 (structured programs of C01's fragment, any nesting, every layout, state): source laws
     `if_else_swap_law` (if (c) A else B ≡ if (!c) B else A), `compare_swap_law` (a < b ≡ b > a, all six
     operators, in if / if-else / while / do-while / for), `for_while_law` (for (i;c;u) S ≡ i; while (c)
     {S; u;}), `while_dowhile_law` (while (c) S ≡ if (c) do S while (c)); `Sem.det` (the meaning is a
     partial function); `same_meaning_same_behaviour`: two programs with the same meaning compile to
     code whose runs both end, in the same memory, X, Y, SP untouched — instantiated per law
     (`compiled_if_else_swap`, `compiled_compare_swap_if/_while`, `compiled_for_while`,
     `compiled_while_dowhile`)
   * stages 6-9: `wide_opassign_same_code` / `wide_opassign_law` (s ∘= w and s = s ∘ w on a 16-bit variable are the
     same code and the same meaning), `linear_comm_same_code` / `linear_comm_law` (a ∘ (e) and (e) ∘ a for a
     commutative operator: the same code), `wide_incr_law` (s++ and s += 1 on a 16-bit variable: different code, the
     same 16-bit value)
   * stage 10 (expression trees, both spellings accepted by the generator — different code: different spills):
     `tree_comm_law` ((l) ∘ (r) ≡ (r) ∘ (l) for a commutative operator), `tree_assoc_law` (((x) ∘ (y)) ∘ (z) ≡
     (x) ∘ ((y) ∘ (z)) for +, &, |, ^), `tree_equal_value_law` (any two accepted trees with the same plain value):
     the same X, Y and memory outside the compiler's own cells (`cctmp`, stack page)
   * stages 12-14 (conditions on trees, conditions with effects, 16-bit (in)equality): the condition laws are proved
     over the meaning that threads the state a condition leaves behind — `condRun_neg` (the written-out negation has
     the negated value AND the same effect), `condRun_swap` (`a < b` ≡ `b > a`, `(e) < X` ≡ `X > (e)`: same value, same
     effect), `cond_congr` (conditions with the same value and effect everywhere are interchangeable in if / while /
     do-while / for); `while ≡ if-do-while` and `for ≡ while` hold with effects because both spellings evaluate the
     condition at the same moments; `wide_compare_symmetric_law` (`s == t` ≡ `t == s` on 16-bit variables: same truth
     value, states equal outside the scratch cell)
  Not proved: the rewrites that need arrays, switch or calls (switch vs if-chain, register vs constant
  index, call vs body in place); they are decided by metamorphic co-execution in the check (partial).
-/
import CV.Props.C01
set_option linter.unusedSimpArgs false
set_option linter.constructorNameAsVariable false
namespace CV.C15
open CV CV.GenFlat CV.GenReg CV.GenStruct CV.C01

theorem comm_law (L : Layout) (m : Mem) (x y : Byte) (v : String) (op : BOp) (a b : Atom) (h : op.commutes = true) :
    spec L m x y (.bin v op a b) = spec L m x y (.bin v op b a) := by
  cases op <;> simp [BOp.commutes] at h <;>
    simp [spec, BOp.apply, BitVec.add_comm, BitVec.and_comm, BitVec.or_comm, BitVec.xor_comm]

theorem opassign_law (L : Layout) (m : Mem) (x y : Byte) (v : String) (op : BOp) (a : Atom) :
    spec L m x y (.opasg v op a) = spec L m x y (.bin v op (.var v) a) := by
  simp [spec, val]

theorem incr_law (L : Layout) (m : Mem) (x y : Byte) (v : String) :
    spec L m x y (.inc v) = spec L m x y (.opasg v .add (.const 1)) := by
  simp [spec, val, BOp.apply]

theorem decr_law (L : Layout) (m : Mem) (x y : Byte) (v : String) :
    spec L m x y (.dec v) = spec L m x y (.opasg v .sub (.const 1)) := by
  simp [spec, val, BOp.apply]

/-- two spellings with the same meaning compile to code with the same effect, from every state -/
theorem compiled_equiv (L : Layout) (s₁ s₂ : FStmt) (c : Cpu)
    (hsame : spec L c.mem c.x c.y s₁ = spec L c.mem c.x c.y s₂) :
    ∃ c₁ c₂, execSeq c (genOps L s₁) = some c₁ ∧ execSeq c (genOps L s₂) = some c₂ ∧
      c₁.mem = c₂.mem ∧ c₁.x = c₂.x ∧ c₁.y = c₂.y ∧ c₁.sp = c₂.sp := by
  obtain ⟨c₁, h1, m1, x1, y1, p1⟩ := C01.gen_stmt_correct L s₁ c
  obtain ⟨c₂, h2, m2, x2, y2, p2⟩ := C01.gen_stmt_correct L s₂ c
  exact ⟨c₁, c₂, h1, h2, by rw [m1, m2, hsame], by rw [x1, x2], by rw [y1, y2], by rw [p1, p2]⟩

theorem compiled_comm (L : Layout) (c : Cpu) (v : String) (op : BOp) (a b : Atom) (h : op.commutes = true) :
    ∃ c₁ c₂, execSeq c (genOps L (.bin v op a b)) = some c₁ ∧ execSeq c (genOps L (.bin v op b a)) = some c₂ ∧
      c₁.mem = c₂.mem ∧ c₁.x = c₂.x ∧ c₁.y = c₂.y ∧ c₁.sp = c₂.sp :=
  compiled_equiv L _ _ c (comm_law L c.mem c.x c.y v op a b h)

theorem compiled_opassign (L : Layout) (c : Cpu) (v : String) (op : BOp) (a : Atom) :
    ∃ c₁ c₂, execSeq c (genOps L (.opasg v op a)) = some c₁ ∧ execSeq c (genOps L (.bin v op (.var v) a)) = some c₂ ∧
      c₁.mem = c₂.mem ∧ c₁.x = c₂.x ∧ c₁.y = c₂.y ∧ c₁.sp = c₂.sp :=
  compiled_equiv L _ _ c (opassign_law L c.mem c.x c.y v op a)

theorem compiled_incr (L : Layout) (c : Cpu) (v : String) :
    ∃ c₁ c₂, execSeq c (genOps L (.inc v)) = some c₁ ∧ execSeq c (genOps L (.opasg v .add (.const 1))) = some c₂ ∧
      c₁.mem = c₂.mem ∧ c₁.x = c₂.x ∧ c₁.y = c₂.y ∧ c₁.sp = c₂.sp :=
  compiled_equiv L _ _ c (incr_law L c.mem c.x c.y v)

/-! non-vacuity: the two spellings really are different code -/
example : genText (.inc "a") ≠ genText (.opasg "a" .add (.const 1)) := by decide
example : genText (.bin "c" .add (.var "a") (.var "b")) ≠ genText (.bin "c" .add (.var "b") (.var "a")) := by decide

/-! ## stage 2: laws of structured statements and their compiled counterparts -/

/-- the source meaning as a relation: some amount of fuel suffices -/
def Sem (L : Layout) (m : SrcSt) (st : SStmt) (o : Out) : Prop := ∃ f, sem L f m st = some o

theorem sem_mono_both (L : Layout) : ∀ (f : Nat),
    (∀ (m : SrcSt) (st : SStmt) (o : Out), sem L f m st = some o → sem L (f + 1) m st = some o) ∧
    (∀ (c : Cond) (u : RStmt) (b : SStmt) (m : SrcSt) (o : Out), semFor L c u b f m = some o → semFor L c u b (f + 1) m = some o) := by
  intro f
  induction f with
  | zero => exact ⟨fun m st o h => by simp [sem] at h, fun c u b m o h => by simp [semFor] at h⟩
  | succ f ih =>
    obtain ⟨ih1, ih2⟩ := ih
    refine ⟨?_, ?_⟩
    · intro m st o h
      cases st with
      | flat s => simpa [sem] using h
      | skip => simpa [sem] using h
      | forget => simpa [sem] using h
      | brk => simpa [sem] using h
      | cont => simpa [sem] using h
      | ifBrk c => simpa [sem] using h
      | ifCont c => simpa [sem] using h
      | seq a b =>
        simp only [sem] at h
        cases h1 : sem L f m a with
        | none => simp [h1] at h
        | some oa =>
          obtain ⟨ea, m1⟩ := oa
          have e1 := ih1 m a _ h1
          cases ea with
          | norm =>
            simp only [h1] at h
            rw [sem, e1]; exact ih1 m1 b o h
          | brk => simp only [h1] at h; rw [sem, e1]; exact h
          | cont => simp only [h1] at h; rw [sem, e1]; exact h
      | ifThen c t =>
        simp only [sem] at h
        rw [sem]
        split at h
        · rename_i hc; rw [if_pos hc]; exact ih1 _ t o h
        · rename_i hc; rw [if_neg hc]; exact h
      | ifElse c t e =>
        simp only [sem] at h
        rw [sem]
        split at h
        · rename_i hc; rw [if_pos hc]; exact ih1 _ t o h
        · rename_i hc; rw [if_neg hc]; exact ih1 _ e o h
      | «while» c b =>
        simp only [sem] at h
        rw [sem]
        split at h
        · rename_i hc
          rw [if_pos hc]
          cases h1 : sem L f (condEff L m c) b with
          | none => simp [h1] at h
          | some ob =>
            obtain ⟨eb, m1⟩ := ob
            rw [ih1 _ b _ h1]
            cases eb with
            | brk => simpa [h1] using h
            | norm => simp only [h1] at h; exact ih1 m1 _ o h
            | cont => simp only [h1] at h; exact ih1 m1 _ o h
        · rename_i hc; rw [if_neg hc]; exact h
      | doWhile b c =>
        simp only [sem] at h
        rw [sem]
        cases h1 : sem L f m b with
        | none => simp [h1] at h
        | some ob =>
          obtain ⟨eb, m1⟩ := ob
          rw [ih1 m b _ h1]
          cases eb with
          | brk => simpa [h1] using h
          | norm =>
            simp only [h1] at h ⊢
            split at h
            · rename_i hc; rw [if_pos hc]; exact ih1 _ _ o h
            · rename_i hc; rw [if_neg hc]; exact h
          | cont =>
            simp only [h1] at h ⊢
            split at h
            · rename_i hc; rw [if_pos hc]; exact ih1 _ _ o h
            · rename_i hc; rw [if_neg hc]; exact h
      | «for» i c u b =>
        simp only [sem] at h
        rw [sem]; exact ih2 c u b _ o h
    · intro c u b m o h
      simp only [semFor] at h
      rw [semFor]
      split at h
      · rename_i hc
        rw [if_pos hc]
        cases h1 : sem L f (condEff L m c) b with
        | none => simp [h1] at h
        | some ob =>
          obtain ⟨eb, m1⟩ := ob
          rw [ih1 _ b _ h1]
          cases eb with
          | brk => simpa [h1] using h
          | norm => simp only [h1] at h; exact ih2 c u b _ o h
          | cont => simp only [h1] at h; exact ih2 c u b _ o h
      · rename_i hc; rw [if_neg hc]; exact h

theorem sem_mono (L : Layout) (f : Nat) (m : SrcSt) (st : SStmt) (o : Out) (h : sem L f m st = some o) :
    sem L (f + 1) m st = some o := (sem_mono_both L f).1 m st o h

theorem sem_mono_add (L : Layout) (f k : Nat) (m : SrcSt) (st : SStmt) (o : Out)
    (h : sem L f m st = some o) : sem L (f + k) m st = some o := by
  induction k with
  | zero => exact h
  | succ k ih => exact sem_mono L _ _ _ _ ih

theorem semFor_mono_add (L : Layout) (c : Cond) (u : RStmt) (b : SStmt) (f k : Nat) (m : SrcSt) (o : Out)
    (h : semFor L c u b f m = some o) : semFor L c u b (f + k) m = some o := by
  induction k with
  | zero => exact h
  | succ k ih => exact (sem_mono_both L _).2 c u b m o ih

/-- the source meaning is a partial function -/
theorem Sem.det {L : Layout} {m : SrcSt} {st : SStmt} {o1 o2 : Out} (h1 : Sem L m st o1) (h2 : Sem L m st o2) : o1 = o2 := by
  obtain ⟨f1, e1⟩ := h1
  obtain ⟨f2, e2⟩ := h2
  have a := sem_mono_add L f1 f2 m st o1 e1
  have b := sem_mono_add L f2 f1 m st o2 e2
  rw [Nat.add_comm] at b
  rw [a] at b
  exact Option.some.inj b

/-- two spellings with the same source meaning compile to code with the same behaviour, from every
    machine state: both runs end, in the same memory, with X, Y, SP as they were -/
theorem same_meaning_same_behaviour (L : Layout) (st₁ st₂ : SStmt)
    (h₁ : SInFragment st₁ = true) (h₂ : SInFragment st₂ = true)
    (c₁ : Scoped false st₁ = true) (c₂ : Scoped false st₂ = true)
    (s : Cpu) (o : Out) (hs₁ : Sem L (srcOf s) st₁ o) (hs₂ : Sem L (srcOf s) st₂ o) :
    ∃ s₁ s₂ n₁ n₂,
      runG L (gen none {} st₁).1 (gen none {} st₁).1.length n₁ 0 s = some s₁ ∧
      runG L (gen none {} st₂).1 (gen none {} st₂).1.length n₂ 0 s = some s₂ ∧
      srcOf s₁ = srcOf s₂ ∧ s₁.sp = s₂.sp := by
  obtain ⟨f1, e1⟩ := hs₁
  obtain ⟨f2, e2⟩ := hs₂
  obtain ⟨s1, n1, r1, m1, p1⟩ := struct_program_correct L st₁ f1 (srcOf s) o e1 h₁ c₁ s rfl
  obtain ⟨s2, n2, r2, m2, p2⟩ := struct_program_correct L st₂ f2 (srcOf s) o e2 h₂ c₂ s rfl
  exact ⟨s1, s2, n1, n2, r1, r2, by rw [m1, m2], by rw [p1, p2]⟩

/-! ### the laws -/

/-- the negation written out: operators negated, `v` ↔ `!v`, De Morgan for `&&` / `||` -/
def Cond.neg : Cond → Cond
  | .cmp op a b => .cmp op.negate a b
  | .truth v => .nottruth v
  | .nottruth v => .truth v
  | .and a b => .or (Cond.neg a) (Cond.neg b)
  | .or a b => .and (Cond.neg a) (Cond.neg b)
  | .not c => c
  | .cmpE op e b l => .cmpE op.negate e b l
  | .truthE e => .not (.truthE e)
  | .cmpR op e y l => .cmpR op.negate e y l
  | .wcmp ne s w => .wcmp (!ne) s w

/-- every comparison written from the other side (`a ⋈ b` ↦ `b ⋈' a`) -/
def Cond.swap : Cond → Cond
  | .cmp op a b => .cmp op.mirror b a
  | .cmpE op e b l => .cmpE op.mirror e b (!l)
  | .cmpR op e y l => .cmpR op.mirror e y (!l)
  | .and a b => .and (Cond.swap a) (Cond.swap b)
  | .or a b => .or (Cond.swap a) (Cond.swap b)
  | .not c => .not (Cond.swap c)
  | c => c

theorem condRun_neg (L : Layout) (c : Cond) : ∀ m : SrcSt,
    evalCond L m (Cond.neg c) = (!evalCond L m c) ∧ condEff L m (Cond.neg c) = condEff L m c := by
  induction c with
  | cmp op a b => intro m; simp [Cond.neg, evalCond_cmp, evalCond_truth, evalCond_nottruth, evalCond_cmpE, evalCond_truthE, evalCond_not, evalCond_and, evalCond_or, condEff_cmp, condEff_truth, condEff_nottruth, condEff_cmpE, condEff_truthE, condEff_not, condEff_and, condEff_or, negate_means_not]
  | truth v => intro m; simp [Cond.neg, evalCond_cmp, evalCond_truth, evalCond_nottruth, evalCond_cmpE, evalCond_truthE, evalCond_not, evalCond_and, evalCond_or, condEff_cmp, condEff_truth, condEff_nottruth, condEff_cmpE, condEff_truthE, condEff_not, condEff_and, condEff_or, bne]
  | nottruth v => intro m; simp [Cond.neg, evalCond_cmp, evalCond_truth, evalCond_nottruth, evalCond_cmpE, evalCond_truthE, evalCond_not, evalCond_and, evalCond_or, condEff_cmp, condEff_truth, condEff_nottruth, condEff_cmpE, condEff_truthE, condEff_not, condEff_and, condEff_or, bne]
  | and a b iha ihb =>
    intro m
    obtain ⟨a1, a2⟩ := iha m
    obtain ⟨b1, b2⟩ := ihb (condEff L m a)
    simp only [Cond.neg, evalCond_and, evalCond_or, condEff_and, condEff_or, a1, a2, b1, b2]
    cases evalCond L m a <;> simp
  | or a b iha ihb =>
    intro m
    obtain ⟨a1, a2⟩ := iha m
    obtain ⟨b1, b2⟩ := ihb (condEff L m a)
    simp only [Cond.neg, evalCond_and, evalCond_or, condEff_and, condEff_or, a1, a2, b1, b2]
    cases evalCond L m a <;> simp
  | not c ih => intro m; simp [Cond.neg, evalCond_cmp, evalCond_truth, evalCond_nottruth, evalCond_cmpE, evalCond_truthE, evalCond_not, evalCond_and, evalCond_or, condEff_cmp, condEff_truth, condEff_nottruth, condEff_cmpE, condEff_truthE, condEff_not, condEff_and, condEff_or]
  | cmpE op e b l => intro m; cases l <;> simp [Cond.neg, evalCond_cmp, evalCond_truth, evalCond_nottruth, evalCond_cmpE, evalCond_truthE, evalCond_not, evalCond_and, evalCond_or, condEff_cmp, condEff_truth, condEff_nottruth, condEff_cmpE, condEff_truthE, condEff_not, condEff_and, condEff_or, negate_means_not]
  | truthE e => intro m; simp [Cond.neg, evalCond_cmp, evalCond_truth, evalCond_nottruth, evalCond_cmpE, evalCond_truthE, evalCond_not, evalCond_and, evalCond_or, condEff_cmp, condEff_truth, condEff_nottruth, condEff_cmpE, condEff_truthE, condEff_not, condEff_and, condEff_or]
  | cmpR op e y l => intro m; cases l <;> simp [Cond.neg, evalCond_cmpR, condEff_cmpR, negate_means_not]
  | wcmp ne s w => intro m; cases ne <;> simp [Cond.neg, evalCond_wcmp, condEff_wcmp]

theorem evalCond_neg (L : Layout) (m : SrcSt) (c : Cond) : evalCond L m (Cond.neg c) = !evalCond L m c := (condRun_neg L c m).1
theorem condEff_neg (L : Layout) (m : SrcSt) (c : Cond) : condEff L m (Cond.neg c) = condEff L m c := (condRun_neg L c m).2

theorem condRun_swap (L : Layout) (c : Cond) : ∀ m : SrcSt,
    evalCond L m (Cond.swap c) = evalCond L m c ∧ condEff L m (Cond.swap c) = condEff L m c := by
  induction c with
  | cmp op a b => intro m; simp [Cond.swap, evalCond_cmp, evalCond_truth, evalCond_nottruth, evalCond_cmpE, evalCond_truthE, evalCond_not, evalCond_and, evalCond_or, condEff_cmp, condEff_truth, condEff_nottruth, condEff_cmpE, condEff_truthE, condEff_not, condEff_and, condEff_or, mirror_means_swap]
  | truth v => intro m; exact ⟨rfl, rfl⟩
  | nottruth v => intro m; exact ⟨rfl, rfl⟩
  | and a b iha ihb =>
    intro m
    obtain ⟨a1, a2⟩ := iha m
    obtain ⟨b1, b2⟩ := ihb (condEff L m a)
    simp [Cond.swap, evalCond_and, condEff_and, a1, a2, b1, b2]
  | or a b iha ihb =>
    intro m
    obtain ⟨a1, a2⟩ := iha m
    obtain ⟨b1, b2⟩ := ihb (condEff L m a)
    simp [Cond.swap, evalCond_or, condEff_or, a1, a2, b1, b2]
  | not c ih => intro m; simp [Cond.swap, evalCond_cmp, evalCond_truth, evalCond_nottruth, evalCond_cmpE, evalCond_truthE, evalCond_not, evalCond_and, evalCond_or, condEff_cmp, condEff_truth, condEff_nottruth, condEff_cmpE, condEff_truthE, condEff_not, condEff_and, condEff_or, ih m]
  | cmpE op e b l => intro m; cases l <;> simp [Cond.swap, evalCond_cmp, evalCond_truth, evalCond_nottruth, evalCond_cmpE, evalCond_truthE, evalCond_not, evalCond_and, evalCond_or, condEff_cmp, condEff_truth, condEff_nottruth, condEff_cmpE, condEff_truthE, condEff_not, condEff_and, condEff_or, mirror_means_swap]
  | truthE e => intro m; exact ⟨rfl, rfl⟩
  | cmpR op e y l => intro m; cases l <;> simp [Cond.swap, evalCond_cmpR, condEff_cmpR, mirror_means_swap]
  | wcmp ne s w => intro m; exact ⟨rfl, rfl⟩

theorem evalCond_swap (L : Layout) (m : SrcSt) (c : Cond) : evalCond L m (Cond.swap c) = evalCond L m c := (condRun_swap L c m).1
theorem condEff_swap (L : Layout) (m : SrcSt) (c : Cond) : condEff L m (Cond.swap c) = condEff L m c := (condRun_swap L c m).2

/-- De Morgan at the source level: `!(a && b)` ≡ `!a || !b`, `!(a || b)` ≡ `!a && !b` -/
theorem de_morgan_law (L : Layout) (m : SrcSt) (a b : Cond) :
    evalCond L m (.not (.and a b)) = evalCond L m (.or (.not a) (.not b)) ∧
    evalCond L m (.not (.or a b)) = evalCond L m (.and (.not a) (.not b)) := by
  simp [evalCond_cmp, evalCond_truth, evalCond_nottruth, evalCond_cmpE, evalCond_truthE, evalCond_not, evalCond_and, evalCond_or, condEff_cmp, condEff_truth, condEff_nottruth, condEff_cmpE, condEff_truthE, condEff_not, condEff_and, condEff_or]

/-- `if (c) A else B` ≡ `if (!c) B else A` -/
theorem if_else_swap_law (L : Layout) (f : Nat) (m : SrcSt) (c : Cond) (t e : SStmt) :
    sem L f m (.ifElse c t e) = sem L f m (.ifElse (Cond.neg c) e t) := by
  cases f with
  | zero => rfl
  | succ f => simp only [sem, evalCond_neg, condEff_neg]; cases evalCond L m c <;> simp

/-- the same with the `!` operator itself: `if (c) A else B` ≡ `if (!(c)) B else A` -/
theorem if_else_not_law (L : Layout) (f : Nat) (m : SrcSt) (c : Cond) (t e : SStmt) :
    sem L f m (.ifElse c t e) = sem L f m (.ifElse (.not c) e t) := by
  cases f with
  | zero => rfl
  | succ f =>
    simp only [sem, evalCond_cmp, evalCond_truth, evalCond_nottruth, evalCond_cmpE, evalCond_truthE, evalCond_not, evalCond_and, evalCond_or, condEff_cmp, condEff_truth, condEff_nottruth, condEff_cmpE, condEff_truthE, condEff_not, condEff_and, condEff_or]
    rcases Bool.eq_false_or_eq_true (evalCond L m c) with h | h <;> simp [h]

/-- replacing a loop / branch condition by one with the same truth value everywhere -/
theorem cond_congr (L : Layout) (c c' : Cond) (hc : ∀ m, evalCond L m c = evalCond L m c')
    (he : ∀ m, condEff L m c = condEff L m c') :
    ∀ (f : Nat) (m : SrcSt),
      (∀ t, sem L f m (.ifThen c t) = sem L f m (.ifThen c' t)) ∧
      (∀ t e, sem L f m (.ifElse c t e) = sem L f m (.ifElse c' t e)) ∧
      (∀ b, sem L f m (.while c b) = sem L f m (.while c' b)) ∧
      (∀ b, sem L f m (.doWhile b c) = sem L f m (.doWhile b c')) ∧
      (∀ u b, semFor L c u b f m = semFor L c' u b f m) ∧
      (∀ i u b, sem L f m (.for i c u b) = sem L f m (.for i c' u b)) := by
  intro f
  induction f with
  | zero => intro m; simp [sem, semFor]
  | succ f ih =>
    intro m
    refine ⟨?_, ?_, ?_, ?_, ?_, ?_⟩
    · intro t; simp only [sem, hc, he]
    · intro t e; simp only [sem, hc, he]
    · intro b
      simp only [sem, hc, he]
      split
      · cases sem L f (condEff L m c') b with
        | none => rfl
        | some ob =>
          obtain ⟨eb, m1⟩ := ob
          cases eb <;> simp [(ih m1).2.2.1 b]
      · rfl
    · intro b
      simp only [sem]
      cases sem L f m b with
      | none => rfl
      | some ob =>
        obtain ⟨eb, m1⟩ := ob
        cases eb <;> simp [hc, he, (ih _).2.2.2.1 b]
    · intro u b
      simp only [semFor, hc, he]
      split
      · cases sem L f (condEff L m c') b with
        | none => rfl
        | some ob =>
          obtain ⟨eb, m1⟩ := ob
          cases eb <;> simp [(ih _).2.2.2.2.1 u b]
      · rfl
    · intro i u b
      simp only [sem]
      exact (ih _).2.2.2.2.1 u b

/-- `a < b` ≡ `b > a` (and the other five operators) wherever a condition stands -/
theorem compare_swap_law (L : Layout) (c : Cond) (f : Nat) (m : SrcSt) :
    (∀ t, sem L f m (.ifThen c t) = sem L f m (.ifThen (Cond.swap c) t)) ∧
    (∀ t e, sem L f m (.ifElse c t e) = sem L f m (.ifElse (Cond.swap c) t e)) ∧
    (∀ b, sem L f m (.while c b) = sem L f m (.while (Cond.swap c) b)) ∧
    (∀ b, sem L f m (.doWhile b c) = sem L f m (.doWhile b (Cond.swap c))) ∧
    (∀ i u b, sem L f m (.for i c u b) = sem L f m (.for i (Cond.swap c) u b)) := by
  have := cond_congr L c (Cond.swap c) (fun m => (evalCond_swap L m c).symm) (fun m => (condEff_swap L m c).symm) f m
  exact ⟨this.1, this.2.1, this.2.2.1, this.2.2.2.1, this.2.2.2.2.2⟩

/-- `for (i; c; u) S` ≡ `i; while (c) { S; u; }` — for a body without a `continue` of its own (a `continue`
    in a `for` still runs the update; in the `while` spelling it would skip it); `break` is fine -/
theorem for_while_law (L : Layout) (i u : RStmt) (c : Cond) (b : SStmt) (hcn : contHere b = false) (m : SrcSt) (o : Out) :
    Sem L m (.for i c u b) o ↔ Sem L m (.seq (.flat i) (.while c (.seq b (.flat u)))) o := by
  -- the two loops, from the same memory
  have fwd : ∀ f m o, semFor L c u b f m = some o → Sem L m (.while c (.seq b (.flat u))) o := by
    intro f
    induction f with
    | zero => intro m o h; simp [semFor] at h
    | succ f ih =>
      intro m o h
      simp only [semFor] at h
      by_cases hc : evalCond L m c = true
      · rw [if_pos hc] at h
        cases h1 : sem L f (condEff L m c) b with
        | none => simp [h1] at h
        | some ob =>
          obtain ⟨eb, m1⟩ := ob
          cases eb with
          | brk =>
            simp only [h1, Option.some.injEq] at h
            subst h
            exact ⟨f + 2, by simp [sem, hc, h1]⟩
          | cont =>
            have := C01.sem_cont_has_continue L f _ b m1 h1
            rw [hcn] at this; cases this
          | norm =>
            simp only [h1] at h
            obtain ⟨f2, h2⟩ := ih _ o h
            refine ⟨f + f2 + 3, ?_⟩
            have hb := sem_mono_add L f (f2 + 1) _ b _ h1
            have hw := sem_mono_add L f2 (f + 2) _ _ o h2
            have e1 : f + f2 + 3 = (f + f2 + 2) + 1 := by omega
            rw [e1, sem, if_pos hc]
            have e2 : f + f2 + 2 = (f + f2 + 1) + 1 := by omega
            rw [e2, sem]
            have e3 : f + (f2 + 1) = f + f2 + 1 := by omega
            rw [e3] at hb
            rw [hb]
            simp only
            cases hf : f + f2 + 1 with
            | zero => omega
            | succ k =>
              simp only [sem]
              have e4 : f2 + (f + 2) = k + 1 + 1 := by omega
              rw [e4] at hw
              exact hw
      · rw [if_neg hc, Option.some.injEq] at h
        subst h
        exact ⟨1, by simp [sem, hc]⟩
  have bwd : ∀ f m o, sem L f m (.while c (.seq b (.flat u))) = some o → ∃ k, semFor L c u b k m = some o := by
    intro f
    induction f with
    | zero => intro m o h; simp [sem] at h
    | succ f ih =>
      intro m o h
      simp only [sem] at h
      by_cases hc : evalCond L m c = true
      · rw [if_pos hc] at h
        cases f with
        | zero => simp [sem] at h
        | succ f =>
          simp only [sem] at h
          cases h1 : sem L f (condEff L m c) b with
          | none => simp [h1] at h
          | some ob =>
            obtain ⟨eb, m1⟩ := ob
            cases eb with
            | brk =>
              simp only [h1, Option.some.injEq] at h
              subst h
              exact ⟨f + 1, by simp [semFor, hc, h1]⟩
            | cont =>
              have := C01.sem_cont_has_continue L f _ b m1 h1
              rw [hcn] at this; cases this
            | norm =>
              simp only [h1] at h
              cases f with
              | zero => simp [sem] at h1
              | succ f =>
                simp only [sem] at h
                obtain ⟨k, hk⟩ := ih _ o h
                refine ⟨(f + 1) + k + 1, ?_⟩
                rw [semFor, if_pos hc]
                rw [sem_mono_add L (f + 1) k _ b _ h1]
                simp only
                have := semFor_mono_add L c u b k (f + 1) _ o hk
                rw [Nat.add_comm] at this
                exact this
      · rw [if_neg hc, Option.some.injEq] at h
        subst h
        exact ⟨1, by simp [semFor, hc]⟩
  constructor
  · rintro ⟨f, h⟩
    cases f with
    | zero => simp [sem] at h
    | succ f =>
      simp only [sem] at h
      obtain ⟨f2, h2⟩ := fwd f _ o h
      cases f2 with
      | zero => simp [sem] at h2
      | succ f2 => exact ⟨f2 + 2, by simp only [sem]; exact h2⟩
  · rintro ⟨f, h⟩
    cases f with
    | zero => simp [sem] at h
    | succ f =>
      simp only [sem] at h
      cases f with
      | zero => simp [sem] at h
      | succ f =>
        simp only [sem] at h
        obtain ⟨k, hk⟩ := bwd (f + 1) _ o h
        exact ⟨k + 1, by simp [sem, hk]⟩

/-- `while (c) S` ≡ `if (c) do S while (c);` — also when S leaves by `break` or `continue` -/
theorem while_dowhile_law (L : Layout) (c : Cond) (b : SStmt) : ∀ (m : SrcSt) (o : Out),
    Sem L m (.while c b) o ↔ Sem L m (.ifThen c (.doWhile b c)) o := by
  have fwd : ∀ f m o, sem L f m (.while c b) = some o → Sem L m (.ifThen c (.doWhile b c)) o := by
    intro f
    induction f with
    | zero => intro m o h; simp [sem] at h
    | succ f ih =>
      intro m o h
      simp only [sem] at h
      by_cases hc : evalCond L m c = true
      · rw [if_pos hc] at h
        cases h1 : sem L f (condEff L m c) b with
        | none => simp [h1] at h
        | some ob =>
          obtain ⟨eb, m1⟩ := ob
          have key : ∀ (f2 : Nat), sem L f2 m1 (.ifThen c (.doWhile b c)) = some o → eb ≠ .brk →
              Sem L m (.ifThen c (.doWhile b c)) o := by
            intro f2 h2 hne
            cases f2 with
            | zero => simp [sem] at h2
            | succ f2 =>
              simp only [sem] at h2
              refine ⟨f + f2 + 2, ?_⟩
              have e1 : f + f2 + 2 = (f + f2 + 1) + 1 := by omega
              rw [e1, sem, if_pos hc]
              have e2 : f + f2 + 1 = (f + f2) + 1 := by omega
              rw [e2, sem, sem_mono_add L f f2 _ b _ h1]
              by_cases hc1 : evalCond L m1 c = true
              · rw [if_pos hc1] at h2
                have := sem_mono_add L f2 f _ _ o h2
                rw [Nat.add_comm] at this
                cases eb with
                | brk => exact absurd rfl hne
                | norm => simp only [if_pos hc1]; exact this
                | cont => simp only [if_pos hc1]; exact this
              · rw [if_neg hc1] at h2
                cases eb with
                | brk => exact absurd rfl hne
                | norm => simp only [if_neg hc1]; exact h2
                | cont => simp only [if_neg hc1]; exact h2
          cases eb with
          | brk =>
            simp only [h1, Option.some.injEq] at h
            subst h
            exact ⟨f + 2, by simp [sem, hc, h1]⟩
          | norm =>
            simp only [h1] at h
            obtain ⟨f2, h2⟩ := ih m1 o h
            exact key f2 h2 (by simp)
          | cont =>
            simp only [h1] at h
            obtain ⟨f2, h2⟩ := ih m1 o h
            exact key f2 h2 (by simp)
      · rw [if_neg hc] at h
        exact ⟨1, by simp only [sem, if_neg hc]; exact h⟩
  have bwd : ∀ f m o, sem L f (condEff L m c) (.doWhile b c) = some o → evalCond L m c = true → Sem L m (.while c b) o := by
    intro f
    induction f with
    | zero => intro m o h; simp [sem] at h
    | succ f ih =>
      intro m o h hc
      simp only [sem] at h
      cases h1 : sem L f (condEff L m c) b with
      | none => simp [h1] at h
      | some ob =>
        obtain ⟨eb, m1⟩ := ob
        have key : eb ≠ .brk → (if evalCond L m1 c = true then sem L f (condEff L m1 c) (.doWhile b c) else some (.norm, condEff L m1 c)) = some o →
            Sem L m (.while c b) o := by
          intro hne h
          by_cases hc1 : evalCond L m1 c = true
          · rw [if_pos hc1] at h
            obtain ⟨f2, h2⟩ := ih m1 o h hc1
            refine ⟨f + f2 + 1, ?_⟩
            rw [sem, if_pos hc, sem_mono_add L f f2 _ b _ h1]
            have := sem_mono_add L f2 f _ _ o h2
            rw [Nat.add_comm] at this
            cases eb with
            | brk => exact absurd rfl hne
            | norm => exact this
            | cont => exact this
          · rw [if_neg hc1] at h
            refine ⟨f + 2, ?_⟩
            rw [sem, if_pos hc, sem_mono L f _ b _ h1]
            cases eb with
            | brk => exact absurd rfl hne
            | norm => simp only [sem, if_neg hc1]; exact h
            | cont => simp only [sem, if_neg hc1]; exact h
        cases eb with
        | brk =>
          simp only [h1, Option.some.injEq] at h
          subst h
          exact ⟨f + 1, by simp [sem, hc, h1]⟩
        | norm => simp only [h1] at h; exact key (by simp) h
        | cont => simp only [h1] at h; exact key (by simp) h
  intro m o
  constructor
  · rintro ⟨f, h⟩; exact fwd f m o h
  · rintro ⟨f, h⟩
    cases f with
    | zero => simp [sem] at h
    | succ f =>
      simp only [sem] at h
      by_cases hc : evalCond L m c = true
      · rw [if_pos hc] at h
        exact bwd f m o h hc
      · rw [if_neg hc] at h
        exact ⟨1, by simp only [sem, if_neg hc]; exact h⟩

/-! ### compiled counterparts -/

/-- two spellings related by a law (same meaning from this memory) behave identically when compiled -/
theorem compiled_equiv_struct (L : Layout) (st₁ st₂ : SStmt)
    (h₁ : SInFragment st₁ = true) (h₂ : SInFragment st₂ = true)
    (c₁ : Scoped false st₁ = true) (c₂ : Scoped false st₂ = true) (s : Cpu)
    (hlaw : ∀ o, Sem L (srcOf s) st₁ o ↔ Sem L (srcOf s) st₂ o) (o : Out) (hterm : Sem L (srcOf s) st₁ o) :
    ∃ s₁ s₂ n₁ n₂,
      runG L (gen none {} st₁).1 (gen none {} st₁).1.length n₁ 0 s = some s₁ ∧
      runG L (gen none {} st₂).1 (gen none {} st₂).1.length n₂ 0 s = some s₂ ∧
      srcOf s₁ = srcOf s₂ ∧ s₁.sp = s₂.sp :=
  same_meaning_same_behaviour L st₁ st₂ h₁ h₂ c₁ c₂ s o hterm ((hlaw o).mp hterm)

theorem compiled_if_else_swap (L : Layout) (c : Cond) (t e : SStmt)
    (h₁ : SInFragment (.ifElse c t e) = true) (h₂ : SInFragment (.ifElse (Cond.neg c) e t) = true)
    (c₁ : Scoped false (.ifElse c t e) = true) (c₂ : Scoped false (.ifElse (Cond.neg c) e t) = true)
    (s : Cpu) (o : Out) (hterm : Sem L (srcOf s) (.ifElse c t e) o) :
    ∃ s₁ s₂ n₁ n₂,
      runG L (gen none {} (.ifElse c t e)).1 (gen none {} (.ifElse c t e)).1.length n₁ 0 s = some s₁ ∧
      runG L (gen none {} (.ifElse (Cond.neg c) e t)).1 (gen none {} (.ifElse (Cond.neg c) e t)).1.length n₂ 0 s = some s₂ ∧
      srcOf s₁ = srcOf s₂ ∧ s₁.sp = s₂.sp :=
  compiled_equiv_struct L _ _ h₁ h₂ c₁ c₂ s
    (fun o => ⟨fun ⟨f, h⟩ => ⟨f, by rw [← if_else_swap_law]; exact h⟩, fun ⟨f, h⟩ => ⟨f, by rw [if_else_swap_law]; exact h⟩⟩) o hterm

theorem compiled_for_while (L : Layout) (i u : RStmt) (c : Cond) (b : SStmt) (hcn : contHere b = false)
    (h₁ : SInFragment (.for i c u b) = true) (h₂ : SInFragment (.seq (.flat i) (.while c (.seq b (.flat u)))) = true)
    (c₁ : Scoped false (.for i c u b) = true) (c₂ : Scoped false (.seq (.flat i) (.while c (.seq b (.flat u)))) = true)
    (s : Cpu) (o : Out) (hterm : Sem L (srcOf s) (.for i c u b) o) :
    ∃ s₁ s₂ n₁ n₂,
      runG L (gen none {} (.for i c u b)).1 (gen none {} (.for i c u b)).1.length n₁ 0 s = some s₁ ∧
      runG L (gen none {} (.seq (.flat i) (.while c (.seq b (.flat u))))).1
        (gen none {} (.seq (.flat i) (.while c (.seq b (.flat u))))).1.length n₂ 0 s = some s₂ ∧
      srcOf s₁ = srcOf s₂ ∧ s₁.sp = s₂.sp :=
  compiled_equiv_struct L _ _ h₁ h₂ c₁ c₂ s (fun o => for_while_law L i u c b hcn (srcOf s) o) o hterm

theorem compiled_while_dowhile (L : Layout) (c : Cond) (b : SStmt)
    (h₁ : SInFragment (.while c b) = true) (h₂ : SInFragment (.ifThen c (.doWhile b c)) = true)
    (c₁ : Scoped false (.while c b) = true) (c₂ : Scoped false (.ifThen c (.doWhile b c)) = true)
    (s : Cpu) (o : Out) (hterm : Sem L (srcOf s) (.while c b) o) :
    ∃ s₁ s₂ n₁ n₂,
      runG L (gen none {} (.while c b)).1 (gen none {} (.while c b)).1.length n₁ 0 s = some s₁ ∧
      runG L (gen none {} (.ifThen c (.doWhile b c))).1 (gen none {} (.ifThen c (.doWhile b c))).1.length n₂ 0 s = some s₂ ∧
      srcOf s₁ = srcOf s₂ ∧ s₁.sp = s₂.sp :=
  compiled_equiv_struct L _ _ h₁ h₂ c₁ c₂ s (fun o => while_dowhile_law L c b (srcOf s) o) o hterm

theorem compiled_compare_swap_if (L : Layout) (c : Cond) (t e : SStmt)
    (h₁ : SInFragment (.ifElse c t e) = true) (h₂ : SInFragment (.ifElse (Cond.swap c) t e) = true)
    (c₁ : Scoped false (.ifElse c t e) = true) (c₂ : Scoped false (.ifElse (Cond.swap c) t e) = true)
    (s : Cpu) (o : Out) (hterm : Sem L (srcOf s) (.ifElse c t e) o) :
    ∃ s₁ s₂ n₁ n₂,
      runG L (gen none {} (.ifElse c t e)).1 (gen none {} (.ifElse c t e)).1.length n₁ 0 s = some s₁ ∧
      runG L (gen none {} (.ifElse (Cond.swap c) t e)).1 (gen none {} (.ifElse (Cond.swap c) t e)).1.length n₂ 0 s = some s₂ ∧
      srcOf s₁ = srcOf s₂ ∧ s₁.sp = s₂.sp :=
  compiled_equiv_struct L _ _ h₁ h₂ c₁ c₂ s
    (fun o => ⟨fun ⟨f, h⟩ => ⟨f, by rw [← (compare_swap_law L c f (srcOf s)).2.1]; exact h⟩,
                fun ⟨f, h⟩ => ⟨f, by rw [(compare_swap_law L c f (srcOf s)).2.1]; exact h⟩⟩) o hterm

theorem compiled_compare_swap_while (L : Layout) (c : Cond) (b : SStmt)
    (h₁ : SInFragment (.while c b) = true) (h₂ : SInFragment (.while (Cond.swap c) b) = true)
    (c₁ : Scoped false (.while c b) = true) (c₂ : Scoped false (.while (Cond.swap c) b) = true)
    (s : Cpu) (o : Out) (hterm : Sem L (srcOf s) (.while c b) o) :
    ∃ s₁ s₂ n₁ n₂,
      runG L (gen none {} (.while c b)).1 (gen none {} (.while c b)).1.length n₁ 0 s = some s₁ ∧
      runG L (gen none {} (.while (Cond.swap c) b)).1 (gen none {} (.while (Cond.swap c) b)).1.length n₂ 0 s = some s₂ ∧
      srcOf s₁ = srcOf s₂ ∧ s₁.sp = s₂.sp :=
  compiled_equiv_struct L _ _ h₁ h₂ c₁ c₂ s
    (fun o => ⟨fun ⟨f, h⟩ => ⟨f, by rw [← (compare_swap_law L c f (srcOf s)).2.2.1]; exact h⟩,
                fun ⟨f, h⟩ => ⟨f, by rw [(compare_swap_law L c f (srcOf s)).2.2.1]; exact h⟩⟩) o hterm

/-! ## stages 6-9: laws of the 16-bit statements and of linear expressions -/

/-- `s ∘= w` and `s = s ∘ w` on a 16-bit variable are the same code, line for line -/
theorem wide_opassign_same_code (zp : String → Bool) (s : String) (op : BOp) (a : WA) :
    rgenText zp (.opasgW s op a) = rgenText zp (.binW s op (.wvar s) a) := by
  simp [rgenText, rtemplate, wordered, WA.isConst]

theorem wide_opassign_law (L : Layout) (σ : SrcSt) (s : String) (op : BOp) (a : WA) :
    rspec L σ (.opasgW s op a) = rspec L σ (.binW s op (.wvar s) a) := by
  simp [rspec, wordered, WA.isConst]

/-- a commutative operator with a compound operand: `a ∘ (e)` and `(e) ∘ a` are the same code -/
theorem linear_comm_same_code (zp : String → Bool) (v : LV) (x : RA) (op : BOp) (e : LExpr) (h : op ≠ .sub) :
    rgenText zp (.lin v (.right x op e)) = rgenText zp (.lin v (.left e op x)) := by
  have : (op == BOp.sub) = false := by cases op <;> simp_all
  simp [rgenText, rtemplate, linCode, this]

theorem linear_comm_law (L : Layout) (σ : SrcSt) (v : LV) (x : RA) (op : BOp) (e : LExpr) (h : op ≠ .sub) :
    rspec L σ (.lin v (.right x op e)) = rspec L σ (.lin v (.left e op x)) := by
  have : (op == BOp.sub) = false := by cases op <;> simp_all
  simp [rspec, linVal, this]

/-- `s++` and `s += 1` on a 16-bit variable (different code: INC / BNE / INC against CLC / ADC #1 / ADC #0) leave the
    same 16-bit value in `s` -/
theorem wide_incr_law (L : Layout) (σ : SrcSt) (s : String) (f : Nat) (hsep : L s + 1 ≠ L s) :
    ∃ σ₁, sem L (f + 3) σ (incW s) = some (.norm, σ₁) ∧
      wordAt L σ₁.mem s = wordAt L (rspec L σ (.opasgW s .add (.wconst 1))).mem s := by
  obtain ⟨σ₁, h1, h2, _⟩ := incW_word L σ s f
  have := (wide_stmt_word L σ (.opasgW s .add (.wconst 1)) s _ rfl
    (by intro x hx t ht; simp [wOperands] at hx; rcases hx with rfl | rfl
        · cases ht; exact hsep
        · cases ht)).1
  exact ⟨σ₁, h1, by rw [h2, this]; simp [wval, BOp.apply16]⟩

example : rgenText (fun _ => true) (.opasgW "s" .add (.wconst 1)) ≠ (gen none {} (incW "s")).1.filterMap (fun l => match l with | .ins m (some a) => some (m, GenFlat.text a) | .ins m none => some (m, "") | _ => none) := by decide

/-! ### stage 10: rewrites of expression trees (different code — different spills —, the same result) -/

/-- two trees the generator accepts, with the same plain value: the same final state outside the compiler's cells -/
theorem tree_equal_value_law (L : Layout) (σ : SrcSt) (v : LV) (e1 e2 : GExpr) (h1 : e1.ok = true) (h2 : e2.ok = true)
    (hn1 : NoTmp L (v.names ++ gexprNames e1)) (hn2 : NoTmp L (v.names ++ gexprNames e2))
    (hv : pureE L σ e1 = pureE L σ e2) :
    EqOff L (rspec L σ (.expr v e1)) (rspec L σ (.expr v e2)) := by
  have a := tree_value_is_plain L σ v e1 h1 hn1
  have b := tree_value_is_plain L σ v e2 h2 hn2
  rw [hv] at a
  simpa [rspec] using a.trans b.symm

theorem tree_comm_law (L : Layout) (σ : SrcSt) (v : LV) (l r : GExpr) (op : BOp) (hop : op ≠ .sub)
    (h1 : (GExpr.bin l op r).ok = true) (h2 : (GExpr.bin r op l).ok = true)
    (hn : NoTmp L (v.names ++ (gexprNames l ++ gexprNames r))) :
    EqOff L (rspec L σ (.expr v (.bin l op r))) (rspec L σ (.expr v (.bin r op l))) := by
  refine tree_equal_value_law L σ v _ _ h1 h2 (by simpa [gexprNames] using hn) ?_ ?_
  · refine ⟨hn.1, fun a ha => hn.2 a ?_⟩
    simp only [gexprNames, List.mem_append] at ha ⊢
    rcases ha with ha | ha | ha
    · exact Or.inl ha
    · exact Or.inr (Or.inr ha)
    · exact Or.inr (Or.inl ha)
  · simp only [pureE]; exact apply_comm_ne_sub op _ _ hop

theorem apply_assoc_ne_sub (op : BOp) (a b c : Byte) (h : op ≠ .sub) : op.apply (op.apply a b) c = op.apply a (op.apply b c) := by
  cases op <;> simp_all [BOp.apply, BitVec.add_assoc, BitVec.and_assoc, BitVec.or_assoc, BitVec.xor_assoc]

theorem tree_assoc_law (L : Layout) (σ : SrcSt) (v : LV) (x y z : GExpr) (op : BOp) (hop : op ≠ .sub)
    (h1 : (GExpr.bin (.bin x op y) op z).ok = true) (h2 : (GExpr.bin x op (.bin y op z)).ok = true)
    (hn : NoTmp L (v.names ++ (gexprNames x ++ gexprNames y ++ gexprNames z))) :
    EqOff L (rspec L σ (.expr v (.bin (.bin x op y) op z))) (rspec L σ (.expr v (.bin x op (.bin y op z)))) := by
  refine tree_equal_value_law L σ v _ _ h1 h2 (by simpa [gexprNames] using hn) ?_ ?_
  · refine ⟨hn.1, fun a ha => hn.2 a ?_⟩
    simp only [gexprNames, List.mem_append] at ha ⊢
    rcases ha with ha | ha | ha | ha
    · exact Or.inl ha
    · exact Or.inr (Or.inl (Or.inl ha))
    · exact Or.inr (Or.inl (Or.inr ha))
    · exact Or.inr (Or.inr ha)
  · simp only [pureE]; exact apply_assoc_ne_sub op _ _ _ hop

/-- `(e) << 1` and `(e) + (e)`: different code, the same result (an instance of `tree_equal_value_law`) -/
theorem shift_is_doubling_law (L : Layout) (σ : SrcSt) (v : LV) (e : GExpr)
    (h1 : (GExpr.sh e true 1).ok = true) (h2 : (GExpr.bin e .add e).ok = true)
    (hn : NoTmp L (v.names ++ gexprNames e)) :
    EqOff L (rspec L σ (.expr v (.sh e true 1))) (rspec L σ (.expr v (.bin e .add e))) := by
  refine tree_equal_value_law L σ v _ _ h1 h2 (by simpa [gexprNames] using hn) ?_ ?_
  · refine ⟨hn.1, fun a ha => hn.2 a ?_⟩
    simp only [gexprNames, List.mem_append] at ha ⊢
    rcases ha with ha | ha | ha
    · exact Or.inl ha
    · exact Or.inr ha
    · exact Or.inr ha
  · simp only [pureE, shVal, if_true, BOp.apply]
    generalize pureE L σ e = x
    bv_omega

/-- `~(e)` twice is `e` -/
theorem double_complement_law (L : Layout) (σ : SrcSt) (e : GExpr) :
    pureE L σ (.bin (.bin e .bxor (.atom (.of (.const 255)))) .bxor (.atom (.of (.const 255)))) = pureE L σ e := by
  simp only [pureE, BOp.apply, rval, val]
  generalize pureE L σ e = x
  rw [BitVec.xor_assoc]
  simp

/-- `s == t` and `t == s` on 16-bit variables: different code (the operands change places in the subtraction), the same
    truth value, and states that differ only in the scratch cell -/
theorem wide_compare_symmetric_law (L : Layout) (σ : SrcSt) (ne : Bool) (s t : String)
    (hn : NoTmp L [Atom.var s, Atom.el s (.k 1), Atom.var t, Atom.el t (.k 1)]) :
    evalCond L σ (.wcmp ne s (.wvar t)) = evalCond L σ (.wcmp ne t (.wvar s)) ∧
      EqOff L (condEff L σ (.wcmp ne s (.wvar t))) (condEff L σ (.wcmp ne t (.wvar s))) := by
  have h1 := C01.wide_condition_is_word_compare L σ ne s (.wvar t)
    ⟨hn.1, fun a ha => hn.2 a (by simp [WA.lo, WA.hi, Atom.names] at ha ⊢; rcases ha with h | h | h | h <;> simp [h])⟩
  have h2 := C01.wide_condition_is_word_compare L σ ne t (.wvar s)
    ⟨hn.1, fun a ha => hn.2 a (by simp [WA.lo, WA.hi, Atom.names] at ha ⊢; rcases ha with h | h | h | h <;> simp [h])⟩
  refine ⟨?_, h1.2.trans h2.2.symm⟩
  rw [h1.1, h2.1]
  simp only [wval]
  generalize wordAt L σ.mem s = A
  generalize wordAt L σ.mem t = B
  have hsym : (A == B) = (B == A) := by
    by_cases h : A = B
    · subst h; rfl
    · have h' : ¬ B = A := fun e => h e.symm
      have e1 : (A == B) = false := by simpa using h
      have e2 : (B == A) = false := by simpa using h'
      rw [e1, e2]
  cases ne
  · simpa using hsym
  · simp only [if_true, bne, hsym]

/-- the two spellings are different code (the hypotheses of `tree_comm_law` are met by trees that spill differently) -/
example : rgenText (fun _ => true) (.expr (.var "v") (.bin (.bin (.atom (.of (.var "a"))) .add (.atom (.of (.var "b")))) .bxor
      (.bin (.atom (.of (.var "c"))) .band (.atom (.of (.var "d")))))) ≠
    rgenText (fun _ => true) (.expr (.var "v") (.bin (.bin (.atom (.of (.var "c"))) .band (.atom (.of (.var "d")))) .bxor
      (.bin (.atom (.of (.var "a"))) .add (.atom (.of (.var "b")))))) := by decide
example : (GExpr.bin (.bin (.atom (.of (.var "a"))) .add (.atom (.of (.var "b")))) .bxor
      (.bin (.atom (.of (.var "c"))) .band (.atom (.of (.var "d"))))).ok = true ∧
    (GExpr.bin (.bin (.atom (.of (.var "c"))) .band (.atom (.of (.var "d")))) .bxor
      (.bin (.atom (.of (.var "a"))) .add (.atom (.of (.var "b"))))).ok = true := by decide

/-! non-vacuity: the spellings are different code, and both are in the fragment -/
def demoC : Cond := .cmp .lt (.of (.var "a")) (.of (.var "b"))
example : (gen none {} (.ifElse demoC (.flat (.inc (.var "c"))) (.flat (.dec (.var "c"))))).1
    ≠ (gen none {} (.ifElse (Cond.neg demoC) (.flat (.dec (.var "c"))) (.flat (.inc (.var "c"))))).1 := by decide
example : (gen none {} (.while demoC (.flat (.inc (.var "a"))))).1 ≠ (gen none {} (.while (Cond.swap demoC) (.flat (.inc (.var "a"))))).1 := by decide
example : (gen none {} (.for (.asg (.var "a") (.of (.const 0))) demoC (.inc (.var "a")) (.flat (.inc (.var "c"))))).1
    ≠ (gen none {} (.seq (.flat (.asg (.var "a") (.of (.const 0)))) (.while demoC (.seq (.flat (.inc (.var "c"))) (.flat (.inc (.var "a"))))))).1 := by decide
example : SInFragment (.ifElse (Cond.neg demoC) (.flat (.dec (.var "c"))) (.flat (.inc (.var "c")))) = true := by decide
example : SInFragment (.while (Cond.swap demoC) (.flat (.inc (.var "a")))) = true := by decide

end CV.C15
