/-
  Property C03 — conditional branches always reach; long-branch repair preserves control flow.
  Model: CV.Branch (port of AssemblyCode::check_branches). Specification: CV.Encode / CV.Mos.

  What is proved here, for *all* line vectors, labels, sizes and flag states:
   * `checkBranches_ok_noFar`   : whatever `checkBranches` returns has no far branch left
   * `forward_in_range`, `backward_in_range` : "no far branch" means every checked branch has a
     displacement in −128 … 127 when the byte address of a line is the prefix sum of the sizes
     (`sizeBytes`) — the link to true encodings is C04's `sizeBytes_eq_asmLen`
   * `repair_flow`              : for each of the 8 shapes and every N/Z/C state the replacement
     sequence sends control to the original target iff the original branch (pair) did, and falls
     through otherwise
   * `fix_ne_fixup`             : the two labels of one repair are distinct
  Not proved (checked by the exhaustive co-execution of the check instead): that `flow`, the
  control-flow reading of a straight piece of code used in `repair_flow`, agrees with CV.Exec.step
  on the spliced program; termination of the repair loop (the model takes fuel).
-/
import CV.Proofs.BranchLemmas
set_option linter.unusedSimpArgs false
namespace CV.C03
open CV

/-- the result of a successful run has no far branch -/
theorem checkBranchesGo_ok_noFar :
    ∀ (fuel : Nat) (code : Code) (n : Nat) (c : Code) (m : Nat),
      checkBranchesGo fuel code n = BrResult.ok c m → findFar c = Far.none := by
  intro fuel
  induction fuel with
  | zero => intro code n c m h; simp [checkBranchesGo] at h
  | succ f ih =>
    intro code n c m h
    simp only [checkBranchesGo] at h
    cases hf : findFar code with
    | none =>
      simp only [hf] at h
      cases h
      exact hf
    | panic => simp [hf] at h
    | «at» pos =>
      simp only [hf] at h
      exact ih _ _ _ _ h

theorem checkBranches_ok_noFar (code c : Code) (m : Nat)
    (h : checkBranches code = BrResult.ok c m) : findFar c = Far.none :=
  checkBranchesGo_ok_noFar _ _ _ _ _ h

/-- byte address of line `i` = sum of the sizes before it -/
def addr (code : Code) (i : Nat) : Nat := sizeBytes (code.take i)

/-- Forward branch: the bytes between the branch and its label are at most 127, i.e. the 6502
    displacement `addr(label) − (addr(branch)+2)` is in 0 … 127. -/
theorem forward_in_range (pre mid post : Code) (br : Instr) (tgt : String)
    (hno : findFar (pre ++ Line.instr br :: (mid ++ Line.label tgt :: post)) = Far.none)
    (hc : br.mn.isChecked = true) (ht : br.opd = tgt)
    (h1 : Line.label tgt ∉ pre) (h2 : Line.label tgt ∉ mid) :
    sizeBytes mid ≤ 127 := by
  have hk : (pre ++ Line.instr br :: (mid ++ Line.label tgt :: post))[pre.length]? = some (Line.instr br) := by
    simp
  obtain ⟨a, d, hm, hd⟩ := findFarFrom_none _ _ 0 hno pre.length br hk hc
  rw [Nat.zero_add, measure_mid, ht] at hm
  have hup : Line.label tgt ∉ (Line.instr br :: pre.reverse) := by simp [h1]
  rw [scan_below tgt mid post _ 0 0 h2 hup] at hm
  simp at hm
  omega

/-- Backward branch: the bytes from the label up to and including the branch are at most 127,
    i.e. the displacement `addr(label) − (addr(branch)+2)` is in −127 … −2 when the branch
    occupies 2 bytes. -/
theorem backward_in_range (pre mid post : Code) (br : Instr) (tgt : String)
    (hno : findFar (pre ++ Line.label tgt :: (mid ++ Line.instr br :: post)) = Far.none)
    (hc : br.mn.isChecked = true) (ht : br.opd = tgt)
    (h2 : Line.label tgt ∉ mid) (h3 : Line.label tgt ∉ post) :
    sizeBytes mid + br.nbBytes ≤ 127 := by
  have e : pre ++ Line.label tgt :: (mid ++ Line.instr br :: post)
         = (pre ++ Line.label tgt :: mid) ++ Line.instr br :: post := by simp
  rw [e] at hno
  have hk : ((pre ++ Line.label tgt :: mid) ++ Line.instr br :: post)[(pre ++ Line.label tgt :: mid).length]?
      = some (Line.instr br) := by
    rw [List.getElem?_append_right (Nat.le_refl _)]; simp
  obtain ⟨a, d, hm, hd⟩ := findFarFrom_none _ _ 0 hno _ br hk hc
  rw [Nat.zero_add, measure_mid, ht] at hm
  have hrev : (pre ++ Line.label tgt :: mid).reverse = mid.reverse ++ Line.label tgt :: pre.reverse := by
    simp
  have hup : Line.instr br :: (pre ++ Line.label tgt :: mid).reverse
      = (Line.instr br :: mid.reverse) ++ Line.label tgt :: pre.reverse := by
    rw [hrev]; rfl
  rw [hup] at hm
  have hnm : Line.label tgt ∉ (Line.instr br :: mid.reverse) := by simp [h2]
  rw [scan_above tgt _ _ post 0 0 hnm h3] at hm
  simp [sizeBytes_cons, Line.size, sizeBytes] at hm
  simp [sizeBytes]
  omega

/-- the displacement statement in 6502 terms (signed byte), forward case -/
theorem forward_displacement (pre mid post : Code) (br : Instr) (tgt : String)
    (hno : findFar (pre ++ Line.instr br :: (mid ++ Line.label tgt :: post)) = Far.none)
    (hc : br.mn.isChecked = true) (ht : br.opd = tgt) (hb : br.nbBytes = 2)
    (h1 : Line.label tgt ∉ pre) (h2 : Line.label tgt ∉ mid) :
    let code := pre ++ Line.instr br :: (mid ++ Line.label tgt :: post)
    let disp : Int := (addr code (pre.length + 1 + mid.length) : Int) - ((addr code pre.length : Int) + 2)
    0 ≤ disp ∧ disp ≤ 127 := by
  have h := forward_in_range pre mid post br tgt hno hc ht h1 h2
  have e1 : addr (pre ++ Line.instr br :: (mid ++ Line.label tgt :: post)) pre.length = sizeBytes pre := by
    simp [addr]
  have e2 : addr (pre ++ Line.instr br :: (mid ++ Line.label tgt :: post)) (pre.length + 1 + mid.length)
      = sizeBytes pre + 2 + sizeBytes mid := by
    have : pre ++ Line.instr br :: (mid ++ Line.label tgt :: post)
        = (pre ++ Line.instr br :: mid) ++ Line.label tgt :: post := by simp
    rw [addr, this]
    have hl : pre.length + 1 + mid.length = (pre ++ Line.instr br :: mid).length := by simp; omega
    rw [hl, List.take_left']
    · simp [sizeBytes_append, sizeBytes_cons, Line.size, hb]; omega
    · rfl
  simp only [e1, e2]
  omega

/-! ### control flow of the replacement sequences -/

/-- Control-flow reading of a straight piece of code consisting of conditional branches, `JMP`s
    and labels, for a fixed flag state: `some l` = control leaves to the label `l` that is not
    defined in the rest of the piece, `none` = control falls through its end. Jumps inside the
    piece go forward only (as in every repair sequence). -/
def skipTo (l : String) : List Line → Option (List Line)
  | [] => none
  | x :: r => if x = Line.label l then some r else skipTo l r

def flow (f : Flags) : Nat → List Line → Option String
  | 0, _ => none
  | _ + 1, [] => none
  | n + 1, Line.instr i :: r =>
    if i.mn == Mn.JMP then
      (match skipTo i.opd r with | some r' => flow f n r' | none => some i.opd)
    else match Cpu.taken f i.mn with
      | some true => (match skipTo i.opd r with | some r' => flow f n r' | none => some i.opd)
      | _ => flow f n r
  | n + 1, _ :: r => flow f n r

/-- where the original branch (or pair) sends control -/
def origFlow (f : Flags) (mn : Mn) (pair : Bool) (tgt : String) : Option String :=
  if pair then flow f 4 [mkBranch mn tgt, mkBranch Mn.BEQ tgt] else flow f 4 [mkBranch mn tgt]

/-- Every repair shape × every flag state: the replacement goes to `tgt` exactly when the original
    did and otherwise falls through. Labels are arbitrary, only their distinctness is used. -/
theorem repair_flow (f : Flags) (mn : Mn) (pair : Bool) (tgt fix fixup : String)
    (hc : mn.isChecked = true) (hp : pair = true → (mn = Mn.BMI ∨ mn = Mn.BCC))
    (h1 : tgt ≠ fix) (h2 : tgt ≠ fixup) (h3 : fix ≠ fixup) :
    flow f 8 (repairSeqL mn pair tgt fix fixup) = origFlow f mn pair tgt := by
  have h1' : ¬ (fix = tgt) := fun e => h1 e.symm
  have h2' : ¬ (fixup = tgt) := fun e => h2 e.symm
  have h3' : ¬ (fixup = fix) := fun e => h3 e.symm
  obtain ⟨n, z, c, v⟩ := f
  cases pair with
  | true =>
    rcases hp rfl with e | e <;> subst e <;> cases n <;> cases z <;> cases c <;>
      simp [repairSeqL, origFlow, flow, skipTo, mkBranch, mkJmp, Cpu.taken, h1, h2, h3, h1', h2', h3']
  | false =>
    cases mn <;> simp [Mn.isChecked] at hc <;> cases n <;> cases z <;> cases c <;>
      simp [repairSeqL, origFlow, flow, skipTo, mkBranch, mkJmp, Cpu.taken, h1, h2, h3, h1', h2', h3']

/-- the two labels created by one repair differ -/
theorem fix_ne_fixup (n : Nat) : ".fix" ++ toString n ≠ ".fixup" ++ toString n := by
  intro h
  have h' := congrArg String.toList h
  simp only [String.toList_append] at h'
  have e1 : (".fix" : String).toList = ['.', 'f', 'i', 'x'] := by decide
  have e2 : (".fixup" : String).toList = ['.', 'f', 'i', 'x', 'u', 'p'] := by decide
  rw [e1, e2] at h'
  simp only [List.cons_append, List.nil_append, List.cons.injEq, true_and] at h'
  -- h' : (toString n).toList = 'u' :: 'p' :: (toString n).toList  — lengths differ
  have := congrArg List.length h'
  simp at this
  omega

/-! ### non-vacuity: a concrete function with a far forward branch and a far backward pair -/

def nops (k : Nat) : Code := List.replicate k (Line.instr { mn := Mn.NOP, nbBytes := 1 })

def demo : Code :=
  [Line.label ".top"] ++ nops 130 ++ [mkBranch Mn.BCC ".top", mkBranch Mn.BEQ ".top", mkBranch Mn.BNE ".end"]
    ++ nops 128 ++ [Line.label ".end"]

def demoRepaired : Bool :=
  match checkBranches demo with
  | BrResult.ok c n => n == 2 && decide (findFar c = Far.none) && decide (findFar demo ≠ Far.none)
  | _ => false

example : demoRepaired = true := by decide +kernel

end CV.C03
