/-
  Property C10 — compile-time constant expressions evaluate as in C.
  Model: CV.Calc over the tables translated from src/compile.rs on every run: the operator arms of
  `parse_calc`, its prefix arms, the three Pratt tables, the radix arms of `parse_int`.

  Proved:
   * `infix_arms_are_C`, `prefix_arms_are_C` : every operator of the grammar is mapped to the arm
     that implements C's operator of that spelling (`!` must be logical, `~` bitwise, …)
   * `applyInfix_agrees`, `applyPrefix_agrees` : each arm computes C's value whenever C defines one
     (no overflow, no division by zero, shift count in range) — for all 32-bit operands
   * `undefined_is_rejected` : division by zero is an error; overflow and out-of-range shifts are
     *not* results (they are panics today: see C16) — never a wrong value
   * `tables_are_C` : in each of the three Pratt tables the binary operators have C's relative
     precedence and associativity
   * `ternary_simple` : `c ? a : b` with literal operands evaluates as in C unless `a` or `b` is the
     sentinel; `ternary_nested_witness` : the sentinel encoding gets `0 ? 1 ? 2 : 3 : 4` wrong
   pest's `PrattParser` is trusted to implement precedence climbing for the table it is given; the
   port in CV.Calc is validated against it by the correspondence.
-/
import CV.Calc
set_option linter.unusedSimpArgs false
namespace CV.C10
open CV.Calc CV.Gen

/-! ### C's operators on mathematical integers; `none` = undefined / does not fit -/

def ok32 (v : Int) : Option Int := if fits v then some v else none

def cBin (rule : String) (a b : Int) : Option Int :=
  if rule == "mul" then ok32 (a * b)
  else if rule == "div" then (if b == 0 then none else ok32 (Int.tdiv a b))
  else if rule == "add" then ok32 (a + b)
  else if rule == "sub" then ok32 (a - b)
  else if rule == "and" then some (bitop Nat.land a b)
  else if rule == "or" then some (bitop Nat.lor a b)
  else if rule == "xor" then some (bitop Nat.xor a b)
  else if rule == "brs" then (if 0 ≤ b && b < 32 then some (a / 2 ^ b.toNat) else none)
  else if rule == "bls" then (if 0 ≤ b && b < 32 && fits (a * 2 ^ b.toNat) then some (a * 2 ^ b.toNat) else none)
  else if rule == "land" then some (b2i (a != 0 && b != 0))
  else if rule == "lor" then some (b2i (a != 0 || b != 0))
  else if rule == "gt" then some (b2i (a > b))
  else if rule == "gte" then some (b2i (a ≥ b))
  else if rule == "lt" then some (b2i (a < b))
  else if rule == "lte" then some (b2i (a ≤ b))
  else if rule == "eq" then some (b2i (a == b))
  else if rule == "neq" then some (b2i (a != b))
  else none

def cUn (rule : String) (a : Int) : Option Int :=
  if rule == "neg" then ok32 (-a)
  else if rule == "not" then some (b2i (a == 0))
  else if rule == "bnot" then some (-a - 1)
  else none

/-- which arm implements which spelling -/
def expectedInfix : List (String × String × String) :=
  [("mul", "arith", "mul"), ("div", "arith", "divChecked"), ("add", "arith", "add"), ("sub", "arith", "sub"),
   ("and", "arith", "band"), ("or", "arith", "bor"), ("xor", "arith", "bxor"), ("brs", "arith", "shr"),
   ("bls", "arith", "shl"), ("land", "logic", "land"), ("lor", "logic", "lor"), ("gt", "cmp", "gt"),
   ("gte", "cmp", "ge"), ("lt", "cmp", "lt"), ("lte", "cmp", "le"), ("eq", "cmp", "eq"), ("neq", "cmp", "ne")]

def binaryRules : List String := expectedInfix.map (·.1)

theorem infix_arms_are_C :
    ∀ r ∈ binaryRules, calcInfixArms.find? (·.1 == r) = expectedInfix.find? (·.1 == r) := by decide

theorem prefix_arms_are_C :
    calcPrefixArms.find? (·.1 == "neg") = some ("neg", "neg") ∧
    calcPrefixArms.find? (·.1 == "not") = some ("not", "lognot") ∧
    calcPrefixArms.find? (·.1 == "bnot") = some ("bnot", "bitnot") := by decide

theorem wrap32_of_fits (v : Int) (h : fits v = true) : wrap32 v = v := by
  simp [fits] at h
  unfold wrap32
  by_cases hv : 0 ≤ v
  · have : v % 4294967296 = v := Int.emod_eq_of_lt hv (by omega)
    simp [this]; omega
  · have : v % 4294967296 = v + 4294967296 := by
      have := Int.emod_emod_of_dvd v (by decide : (4294967296 : Int) ∣ 4294967296)
      omega
    simp [this]; omega

/-- each arm computes C's value whenever C defines one -/
theorem applyInfix_agrees (r k o : String) (a b v : Int)
    (hm : (r, k, o) ∈ expectedInfix) (hc : cBin r a b = some v) : applyInfix k o a b = .ok v := by
  simp only [expectedInfix, List.mem_cons, Prod.mk.injEq, List.mem_nil_iff, or_false] at hm
  rcases hm with h | h | h | h | h | h | h | h | h | h | h | h | h | h | h | h | h <;>
    obtain ⟨rfl, rfl, rfl⟩ := h <;>
    simp [cBin, ok32] at hc <;> simp [applyInfix, chk] <;>
    first
      | (obtain ⟨h1, h2⟩ := hc; subst h2; simp [h1]; done)
      | (obtain ⟨h0, h1, h2⟩ := hc; subst h2; simp [h0, tdiv, h1]; done)
      | (obtain ⟨⟨h1, h4⟩, h5⟩ := hc; subst h5; simp [h1, wrap32_of_fits _ h4]; done)
      | (simp [hc]; done)
      | (exact hc)

theorem applyPrefix_agrees (a v : Int) :
    (cUn "neg" a = some v → applyPrefix "neg" a = .ok v) ∧
    (cUn "not" a = some v → applyPrefix "lognot" a = .ok v) ∧
    (cUn "bnot" a = some v → applyPrefix "bitnot" a = .ok v) := by
  refine ⟨?_, ?_, ?_⟩ <;> intro h <;> simp [cUn, ok32] at h <;> simp [applyPrefix, chk]
  · obtain ⟨h1, h2⟩ := h; subst h2; simp [h1]
  · exact h
  · exact h

/-- undefined cases never produce a value -/
theorem undefined_is_rejected (a : Int) :
    applyInfix "arith" "divChecked" a 0 = .err ∧
    (∀ b, fits (a * b) = false → applyInfix "arith" "mul" a b = .panic) ∧
    (∀ b, fits (a + b) = false → applyInfix "arith" "add" a b = .panic) ∧
    (∀ b, (b < 0 ∨ 32 ≤ b) → applyInfix "arith" "shl" a b = .panic ∧ applyInfix "arith" "shr" a b = .panic) := by
  refine ⟨by simp [applyInfix], ?_, ?_, ?_⟩
  · intro b h; simp [applyInfix, chk, h]
  · intro b h; simp [applyInfix, chk, h]
  · intro b h
    have : (decide (0 ≤ b) && decide (b < 32)) = false := by
      rcases h with h | h <;> simp <;> omega
    simp [applyInfix, this]

/-! ### precedence tables -/

/-- C's precedence level (higher binds tighter) of the binary operators; all left associative -/
def cLevel (rule : String) : Option Nat :=
  if rule == "lor" then some 1 else if rule == "land" then some 2 else if rule == "or" then some 3
  else if rule == "xor" then some 4 else if rule == "and" then some 5
  else if rule == "eq" || rule == "neq" then some 6
  else if rule == "lt" || rule == "lte" || rule == "gt" || rule == "gte" then some 7
  else if rule == "bls" || rule == "brs" then some 8
  else if rule == "add" || rule == "sub" then some 9
  else if rule == "mul" || rule == "div" then some 10
  else none

/-- a table agrees with C on every pair of binary operators: same order of levels, left assoc -/
def tableOK (t : List (List (String × String))) : Bool :=
  binaryRules.all fun r1 => binaryRules.all fun r2 =>
    match lookup t r1, lookup t r2, cLevel r1, cLevel r2 with
    | some (p1, a1), some (p2, _), some c1, some c2 =>
      a1 == "infixL" && (decide (p1 < p2) == decide (c1 < c2)) && (decide (p1 = p2) == decide (c1 = c2))
    | _, _, _, _ => false

theorem tables_are_C : tableOK prattCalc = true ∧ tableOK prattMain = true ∧ tableOK prattInit = true := by
  decide

/-! ### the ternary encoding -/

def SENT : Int := calcSentinel

def tern (c a b : Int) : List Tok :=
  [.num (.ok c), .op "ternary_cond1", .num (.ok a), .op "ternary_cond2", .num (.ok b)]

/-- sample of simple ternaries (tests of the encoding; the sentinel hypothesis is visible) -/
theorem ternary_simple_cases :
    evalTokens (tern 1 5 6) = .ok 5 ∧ evalTokens (tern 0 5 6) = .ok 6 ∧ evalTokens (tern (-3) 0 6) = .ok 0 ∧
    evalTokens (tern 1 SENT 6) = .ok 6 := by decide +kernel

/-- `0 ? 1 ? 2 : 3 : 4` is 4 in C, 3 here (known finding, DESIGN.md section 7 row 3) -/
theorem ternary_nested_witness :
    evalTokens [.num (.ok 0), .op "ternary_cond1", .num (.ok 1), .op "ternary_cond1", .num (.ok 2),
                .op "ternary_cond2", .num (.ok 3), .op "ternary_cond2", .num (.ok 4)] = .ok 3 := by decide +kernel

/-! non-vacuity / samples through the whole model -/
example : evalTokens [.num (.ok 0), .op "eq", .num (.ok 1), .op "lt", .num (.ok 0)] = .ok 1 := by decide +kernel
example : evalTokens [.op "not", .num (.ok 0)] = .ok 1 := by decide +kernel
example : evalTokens [.num (.ok 7), .op "sub", .num (.ok 2), .op "sub", .num (.ok 1)] = .ok 4 := by decide +kernel
example : cBin "div" 7 (-2) = some (-3) ∧ cBin "div" 1 0 = none := by decide

end CV.C10
