/-
  Property C14 — inlining is transparent.
  Model: CV.Inline.appendCode / pushCode (port of append_code / push_code).

  Proved (for all callers, callees, counters):
   * `expansion_preserves_instructions` : the expanded body has the callee's instructions — same
     mnemonics, sizes, cycle annotations and `protected` flags, same operands except that branch /
     jump targets carry the suffix — and the same inline lines, comments, dummies, in the same order
   * `label_lookup_commutes` : in the caller after expansion, the renamed target of every branch of
     the body resolves to the position of the image of its original target (offset by where the
     body was spliced) — the control-flow graph of the body is preserved
   * `endof_lands_after_body` : `JMP .endof` (the inline `return`) resolves to the line right after
     the expanded body
   * from C13: labels stay unique and references closed under any sequence of expansions
  Not proved: the final step from "same instructions, same control-flow graph, return = jump past
  the body" to equality of runs with the `JSR`/`RTS` version (stack pointer excursion of JSR), and
  that the generator emits the same body in both modes; decided by co-execution of every
  inline/non-inline marking of generated programs in the check (partial).
-/
import CV.Props.C13
set_option linter.unusedSimpArgs false
namespace CV.C14
open CV CV.C13

/-- a line with its label-dependent part erased -/
def skeleton : Line → Line
  | .label _ => .label ""
  | .instr i => if i.mn.isRenamed then .instr { i with opd := "" } else .instr i
  | l => l

theorem skeleton_rename (n : Nat) (l : Line) : skeleton (renameLine n l) = skeleton l := by
  cases l with
  | label s => simp [renameLine, skeleton]
  | instr i =>
    by_cases h : i.mn.isRenamed = true <;> simp [renameLine, skeleton, h]
  | inline t s => simp [renameLine, skeleton]
  | comment s => simp [renameLine, skeleton]
  | dummy => simp [renameLine, skeleton]

/-- the expansion changes nothing but label names -/
theorem expansion_preserves_instructions (caller callee : Code) (n : Nat) :
    (appendCode caller callee n).map skeleton = caller.map skeleton ++ callee.map skeleton := by
  simp [appendCode, List.map_map, Function.comp_def, skeleton_rename]

/-- position of the first definition of a label -/
def labelIndex : Code → String → Option Nat
  | [], _ => none
  | .label l :: r, t => if l = t then some 0 else (labelIndex r t).map (· + 1)
  | _ :: r, t => (labelIndex r t).map (· + 1)

theorem labelIndex_rename (c : Code) (n : Nat) (t : String) :
    labelIndex (c.map (renameLine n)) (t ++ suffixOf n) = labelIndex c t := by
  induction c with
  | nil => simp [labelIndex]
  | cons x xs ih =>
    cases x with
    | label l =>
      simp only [List.map_cons, renameLine, labelIndex, ih]
      by_cases h : l = t
      · simp [h]
      · have : l ++ suffixOf n ≠ t ++ suffixOf n := fun e => h (rename_injective l t n n e).1
        simp [h, this]
    | instr i => by_cases h : i.mn.isRenamed = true <;> simp [renameLine, labelIndex, h, ih]
    | inline a b => simp [renameLine, labelIndex, ih]
    | comment a => simp [renameLine, labelIndex, ih]
    | dummy => simp [renameLine, labelIndex, ih]

theorem labelIndex_append_right (a b : Code) (t : String) (h : t ∉ labelsOf a) :
    labelIndex (a ++ b) t = (labelIndex b t).map (· + a.length) := by
  induction a with
  | nil => simp [labelIndex]
  | cons x xs ih =>
    cases x with
    | label l =>
      have hl : l ≠ t := fun e => h (by simp [labelsOf, e])
      have ht : t ∉ labelsOf xs := fun e => h (by simp [labelsOf, e])
      simp only [List.cons_append, labelIndex, hl, if_false, ih ht]
      cases labelIndex b t <;> simp; omega
    | instr i =>
      have ht : t ∉ labelsOf xs := fun e => h (by simpa [labelsOf] using e)
      simp only [List.cons_append, labelIndex, ih ht]
      cases labelIndex b t <;> simp; omega
    | inline p q =>
      have ht : t ∉ labelsOf xs := fun e => h (by simpa [labelsOf] using e)
      simp only [List.cons_append, labelIndex, ih ht]
      cases labelIndex b t <;> simp; omega
    | comment p =>
      have ht : t ∉ labelsOf xs := fun e => h (by simpa [labelsOf] using e)
      simp only [List.cons_append, labelIndex, ih ht]
      cases labelIndex b t <;> simp; omega
    | dummy =>
      have ht : t ∉ labelsOf xs := fun e => h (by simpa [labelsOf] using e)
      simp only [List.cons_append, labelIndex, ih ht]
      cases labelIndex b t <;> simp; omega

theorem labelIndex_append_left (a b : Code) (t : String) (k : Nat) (h : labelIndex a t = some k) :
    labelIndex (a ++ b) t = some k := by
  induction a generalizing k with
  | nil => simp [labelIndex] at h
  | cons x xs ih =>
    cases x with
    | label l =>
      simp only [List.cons_append, labelIndex] at h ⊢
      by_cases hl : l = t
      · simp [hl] at h ⊢; exact h
      · simp only [hl, if_false] at h ⊢
        cases hx : labelIndex xs t with
        | none => simp [hx] at h
        | some j => simp [hx] at h; simp [ih j hx, h]
    | instr i =>
      simp only [List.cons_append, labelIndex] at h ⊢
      cases hx : labelIndex xs t with
      | none => simp [hx] at h
      | some j => simp [hx] at h; simp [ih j hx, h]
    | inline p q =>
      simp only [List.cons_append, labelIndex] at h ⊢
      cases hx : labelIndex xs t with
      | none => simp [hx] at h
      | some j => simp [hx] at h; simp [ih j hx, h]
    | comment p =>
      simp only [List.cons_append, labelIndex] at h ⊢
      cases hx : labelIndex xs t with
      | none => simp [hx] at h
      | some j => simp [hx] at h; simp [ih j hx, h]
    | dummy =>
      simp only [List.cons_append, labelIndex] at h ⊢
      cases hx : labelIndex xs t with
      | none => simp [hx] at h
      | some j => simp [hx] at h; simp [ih j hx, h]

/-- the control-flow graph of the body is preserved: a branch to `t` inside the callee, renamed to
    `t ++ suffix`, resolves in the expanded caller to the image of `t`'s position -/
theorem label_lookup_commutes (caller callee : Code) (n : Nat) (t : String) (k : Nat)
    (hfresh : FreshFrom n caller) (hk : labelIndex callee t = some k) :
    labelIndex (pushCode caller callee n) (t ++ suffixOf n) = some (caller.length + k) := by
  have hnot : (t ++ suffixOf n) ∉ labelsOf caller := by
    intro hmem
    exact hfresh _ hmem n (Nat.le_refl _) t rfl
  unfold pushCode appendCode
  rw [List.append_assoc, labelIndex_append_right _ _ _ hnot]
  have : labelIndex (callee.map (renameLine n)) (t ++ suffixOf n) = some k := by
    rw [labelIndex_rename]; exact hk
  rw [labelIndex_append_left _ _ _ k this]
  simp; omega

theorem labelsOf_mem_of_index (c : Code) (t : String) (h : t ∈ labelsOf c) : (labelIndex c t).isSome := by
  induction c with
  | nil => simp [labelsOf] at h
  | cons x xs ih =>
    cases x with
    | label l =>
      simp only [labelsOf, List.mem_cons] at h
      simp only [labelIndex]
      by_cases hl : l = t
      · simp [hl]
      · have : t ∈ labelsOf xs := by rcases h with h | h; exact absurd h.symm hl; exact h
        simp [hl, ih this]
    | instr i => simp only [labelsOf] at h; simp [labelIndex, ih h]
    | inline p q => simp only [labelsOf] at h; simp [labelIndex, ih h]
    | comment p => simp only [labelsOf] at h; simp [labelIndex, ih h]
    | dummy => simp only [labelsOf] at h; simp [labelIndex, ih h]

theorem labelIndex_none_of_not_mem (c : Code) (t : String) (h : t ∉ labelsOf c) : labelIndex c t = none := by
  cases hx : labelIndex c t with
  | none => rfl
  | some k =>
    exfalso
    apply h
    clear h
    induction c generalizing k with
    | nil => simp [labelIndex] at hx
    | cons x xs ih =>
      cases x with
      | label l =>
        simp only [labelIndex] at hx
        by_cases hl : l = t
        · simp [labelsOf, hl]
        · simp only [hl, if_false] at hx
          cases hj : labelIndex xs t with
          | none => simp [hj] at hx
          | some j => simp [labelsOf, ih j hj]
      | instr i =>
        simp only [labelIndex] at hx
        cases hj : labelIndex xs t with
        | none => simp [hj] at hx
        | some j => simpa [labelsOf] using ih j hj
      | inline p q =>
        simp only [labelIndex] at hx
        cases hj : labelIndex xs t with
        | none => simp [hj] at hx
        | some j => simpa [labelsOf] using ih j hj
      | comment p =>
        simp only [labelIndex] at hx
        cases hj : labelIndex xs t with
        | none => simp [hj] at hx
        | some j => simpa [labelsOf] using ih j hj
      | dummy =>
        simp only [labelIndex] at hx
        cases hj : labelIndex xs t with
        | none => simp [hj] at hx
        | some j => simpa [labelsOf] using ih j hj

/-- the inline `return` (`JMP .endof`, renamed) lands on the line right after the body -/
theorem endof_lands_after_body (caller callee : Code) (n : Nat)
    (hfresh : FreshFrom n caller) (hno : ".endof" ∉ labelsOf callee) :
    labelIndex (pushCode caller callee n) (".endof" ++ suffixOf n) = some (caller.length + callee.length) := by
  have hnot : (".endof" ++ suffixOf n) ∉ labelsOf caller := by
    intro hmem
    exact hfresh _ hmem n (Nat.le_refl _) ".endof" rfl
  have hnot2 : (".endof" ++ suffixOf n) ∉ labelsOf (callee.map (renameLine n)) := by
    rw [labelsOf_map_rename]
    intro hm
    obtain ⟨a, ha, hae⟩ := List.mem_map.mp hm
    have := (rename_injective a ".endof" n n hae).1
    exact hno (this ▸ ha)
  have e : ".endofinline" ++ toString n = ".endof" ++ suffixOf n := by
    apply String.toList_inj.mp
    have a1 : (".endofinline" : String).toList = (".endof" : String).toList ++ ("inline" : String).toList := by decide
    simp [suffixOf, String.toList_append, a1]
  unfold pushCode appendCode
  rw [e, List.append_assoc, labelIndex_append_right _ _ _ hnot, labelIndex_append_right _ _ _ hnot2]
  simp [labelIndex]; omega

/-! non-vacuity -/
example : labelIndex (pushCode [Line.label ".m", mkJmp ".m"] callee 1) (".a" ++ suffixOf 1) = some 2 := by decide

end CV.C14
