/-
  CV.Calc — the compile-time constant calculator (`parse_calc`, `parse_int` of src/compile.rs)
  driven by the tables translated from the source on every run (CV.Gen.Tables):
  operator arms, prefix arms, and the calculator's Pratt table, interpreted by a port of pest's
  precedence-climbing driver. Values are `i32`; the build under test checks overflow
  (`cargo test` profile), so an overflowing operation is a panic.
-/
import CV.Gen.Tables
namespace CV.Calc
open CV.Gen

def fits (v : Int) : Bool := decide (-2147483648 ≤ v) && decide (v < 2147483648)

/-- two's complement wrap to 32 bits -/
def wrap32 (v : Int) : Int :=
  let m := v % 4294967296
  if m ≥ 2147483648 then m - 4294967296 else m

inductive Out where
  | ok (v : Int)
  | err            -- structured error (division by zero)
  | panic
  deriving Repr, DecidableEq, Inhabited

def chk (v : Int) : Out := if fits v then .ok v else .panic

def b2i (b : Bool) : Int := if b then 1 else 0

/-- Rust `/` on i32: truncation toward zero -/
def tdiv (a b : Int) : Int := Int.tdiv a b

/-- bitwise operations on two's complement i32 through their unsigned images -/
def toU (v : Int) : Nat := (v % 4294967296).toNat
def bitop (f : Nat → Nat → Nat) (a b : Int) : Int := wrap32 (f (toU a) (toU b))

/-- one arm of `map_infix`, by the kind/operator the translator recognised -/
def applyInfix (kind op : String) (a b : Int) : Out :=
  if kind == "arith" then
    if op == "mul" then chk (a * b)
    else if op == "add" then chk (a + b)
    else if op == "sub" then chk (a - b)
    else if op == "divChecked" then (if b == 0 then .err else chk (tdiv a b))
    else if op == "band" then .ok (bitop Nat.land a b)
    else if op == "bor" then .ok (bitop Nat.lor a b)
    else if op == "bxor" then .ok (bitop Nat.xor a b)
    else if op == "shr" then (if 0 ≤ b && b < 32 then .ok (a / (2 ^ b.toNat)) else .panic)   -- arithmetic shift = floor
    else if op == "shl" then (if 0 ≤ b && b < 32 then .ok (wrap32 (a * 2 ^ b.toNat)) else .panic)
    else .panic
  else if kind == "cmp" then
    if op == "gt" then .ok (b2i (a > b)) else if op == "ge" then .ok (b2i (a ≥ b))
    else if op == "lt" then .ok (b2i (a < b)) else if op == "le" then .ok (b2i (a ≤ b))
    else if op == "eq" then .ok (b2i (a == b)) else if op == "ne" then .ok (b2i (a != b))
    else .panic
  else if kind == "logic" then
    if op == "land" then .ok (b2i (a != 0 && b != 0)) else if op == "lor" then .ok (b2i (a != 0 || b != 0)) else .panic
  else if kind == "tern1" then .ok (if a != 0 then b else calcSentinel)
  else if kind == "tern2" then .ok (if a == calcSentinel then b else a)
  else .panic

def applyPrefix (sem : String) (a : Int) : Out :=
  if sem == "neg" then chk (-a)
  else if sem == "bitnot" then .ok (-a - 1)
  else if sem == "lognot" then .ok (b2i (a == 0))
  else .panic

/-- `lhs.unwrap()` / `rhs.unwrap()`: an `Err` operand panics — except that Rust's `&&` / `||`
    in the logical arms do not evaluate `rhs.unwrap()` when the left operand decides -/
def infixOut (rule : String) (l r : Out) : Out :=
  match calcInfixArms.find? (·.1 == rule) with
  | none => .panic                       -- unreachable!()
  | some (_, k, o) =>
    match l, r with
    | .panic, _ => .panic
    | _, .panic => .panic
    | .ok a, .ok b => applyInfix k o a b
    | .ok a, .err =>
      if k == "logic" && o == "land" && a == 0 then .ok 0
      else if k == "logic" && o == "lor" && a != 0 then .ok 1
      else .panic
    | .err, _ => .panic

/-- `rhs?`: an `Err` operand propagates -/
def prefixOut (rule : String) (r : Out) : Out :=
  match r with
  | .ok a =>
    (match calcPrefixArms.find? (·.1 == rule) with
     | some (_, s) => applyPrefix s a
     | none => .panic)
  | o => o

/-! ### pest's PrattParser over one calc_expr -/

inductive Tok where
  | num (v : Out)            -- an `int` primary (already through parse_int) or a sizeof
  | op (rule : String)
  | lp | rp
  deriving Repr, DecidableEq, Inhabited

/-- precedence (10, 20, … in table order) and affix of a rule in a table -/
def lookup (table : List (List (String × String))) (rule : String) : Option (Nat × String) :=
  let rec go (lv : List (List (String × String))) (p : Nat) : Option (Nat × String) :=
    match lv with
    | [] => none
    | l :: r => match l.find? (·.1 == rule) with
      | some it => some (p, it.2)
      | none => go r (p + 10)
  go table 10

/-- tokens of the sub-expression between matching parentheses: (inside, rest after ')') -/
def matchParen : Nat → List Tok → Nat → List Tok → Option (List Tok × List Tok)
  | 0, _, _, _ => none
  | _, [], _, _ => none
  | f + 1, t :: ts, depth, acc =>
    match t with
    | .rp => if depth == 0 then some (acc.reverse, ts) else matchParen f ts (depth - 1) (t :: acc)
    | .lp => matchParen f ts (depth + 1) (t :: acc)
    | _ => matchParen f ts depth (t :: acc)

/-- the three mutually recursive procedures of pest's driver, as one fuel-indexed function -/
inductive Job where
  | expr (ts : List Tok) (rbp : Nat)               -- `expr(rbp)`
  | nud (ts : List Tok)                            -- `nud`
  | loop (lhs : Out) (ts : List Tok) (rbp : Nat)   -- `while rbp < lbp { lhs = led(lhs) }`

def pgo (table : List (List (String × String))) : Nat → Job → Out × List Tok
  | 0, .expr ts _ => (.panic, ts)
  | 0, .nud ts => (.panic, ts)
  | 0, .loop _ ts _ => (.panic, ts)
  | f + 1, .expr ts rbp =>
    let r := pgo table f (.nud ts)
    pgo table f (.loop r.1 r.2 rbp)
  | _ + 1, .nud [] => (.panic, [])
  | f + 1, .nud (t :: ts) =>
    (match t with
     | .num v => (v, ts)
     | .lp =>
       (match matchParen (ts.length + 1) ts 0 [] with
        | some (inner, rest) =>
          -- a nested calc_expr is evaluated by a fresh parser; its Err is a value of this level
          ((pgo table f (.expr inner 0)).1, rest)
        | none => (.panic, []))
     | .rp => (.panic, ts)
     | .op rule =>
       (match lookup table rule with
        | some (prec, affix) =>
          if affix == "prefix" then
            let r := pgo table f (.expr ts (prec - 1))
            (prefixOut rule r.1, r.2)
          else (.panic, ts)
        | none => (.panic, ts)))          -- "Expected prefix or primary expression"
  | _ + 1, .loop lhs [] _ => (lhs, [])
  | f + 1, .loop lhs (t :: rest) rbp =>
    (match t with
     | .op rule =>
       (match lookup table rule with
        | none => (.panic, t :: rest)     -- "Expected operator, found …"
        | some (prec, affix) =>
          if rbp < prec then
            if affix == "infixL" then
              let r := pgo table f (.expr rest prec)
              pgo table f (.loop (infixOut rule lhs r.1) r.2 rbp)
            else if affix == "infixR" then
              let r := pgo table f (.expr rest (prec - 1))
              pgo table f (.loop (infixOut rule lhs r.1) r.2 rbp)
            else (.panic, t :: rest)      -- postfix has no closure in parse_calc; a prefix here panics
          else (lhs, t :: rest))
     | _ => (.panic, t :: rest))

def pexpr (table : List (List (String × String))) (fuel : Nat) (ts : List Tok) (rbp : Nat) : Out × List Tok :=
  pgo table fuel (.expr ts rbp)

def evalTokens (ts : List Tok) : Out := (pexpr prattCalc (6 * ts.length + 8) ts 0).1

/-- `parse_int`: decimal / hexadecimal / octal text → i32 or panic (the `.unwrap()`s) -/
def parseIntText (rule : String) (digits : String) : Out :=
  match parseIntArms.find? (·.1 == rule) with
  | none => .panic
  | some (_, radix, skip) =>
    let cs := (digits.toList.drop skip)
    let neg := cs.takeWhile (· == '-')
    let body := cs.drop neg.length
    let dig : Char → Option Nat := fun c =>
      if c.isDigit then some (c.toNat - 48) else if 'a' ≤ c ∧ c ≤ 'f' then some (c.toNat - 87)
      else if 'A' ≤ c ∧ c ≤ 'F' then some (c.toNat - 55) else none
    if body.isEmpty || neg.length > 1 then .panic else
    match body.foldlM (fun (n : Nat) c => (dig c).bind fun d => if d < radix then some (n * radix + d) else none) 0 with
    | none => .panic
    | some n => chk (if neg.length == 1 then -(n : Int) else n)

end CV.Calc
