/-
  CV.SymTab — the symbol tables of CompilerState (HashMap<String, Variable/Function> with an
  `order` field) as far as ordering is concerned: insertion with `order := map.len()`,
  `sorted_*` = stable sort of an ARBITRARY enumeration of the map by the comparator.
-/
import CV.Gen.Tables
namespace CV.SymTab

structure Entry where
  key : String
  order : Nat
  deriving DecidableEq, Repr, Inhabited

/-- the map as an association list (at most one entry per key) -/
abbrev Tab := List Entry

/-- `map.insert(key, Variable { order: map.len(), .. })` -/
def insert (t : Tab) (k : String) : Tab :=
  if t.any (·.key == k) then t.map fun e => if e.key == k then { e with order := t.length } else e
  else t ++ [{ key := k, order := t.length }]

/-- comparator "order": `a.order.cmp(&b.order)` as a ≤ test -/
def leOrder (a b : Entry) : Bool := a.order ≤ b.order

/-- comparator "order_name": order, then key -/
def leOrderName (a b : Entry) : Bool := a.order < b.order || (a.order == b.order && a.key ≤ b.key)

def cmpOf (kind : String) : Entry → Entry → Bool :=
  if kind == "order_name" then leOrderName else leOrder

/-- `sorted_*()` applied to one enumeration of the map -/
def sorted (kind : String) (enumeration : List Entry) : List Entry := enumeration.mergeSort (cmpOf kind)

end CV.SymTab
