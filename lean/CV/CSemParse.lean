/-
  CV.CSemParse — prefix-notation reader for the ASTs the program generators send to the C
  semantics (tools/gen_c.py: `to_tokens`).
-/
import CV.CSem
namespace CV.CSem

def opOf (t : String) : String :=
  if t == "add" then "+" else if t == "sub" then "-" else if t == "and" then "&" else if t == "or" then "|"
  else if t == "xor" then "^" else if t == "shl" then "<<" else if t == "shr" then ">>"
  else if t == "eq" then "==" else if t == "ne" then "!=" else if t == "lt" then "<" else if t == "le" then "<="
  else if t == "gt" then ">" else if t == "ge" then ">=" else if t == "inc" then "++" else if t == "dec" then "--" else t

def parseE : Nat → List String → Option (Expr × List String)
  | 0, _ => none
  | _, [] => none
  | f + 1, t :: ts =>
    if t == "n" then (match ts with | v :: r => v.toInt?.map fun n => (.num n, r) | _ => none)
    else if t == "v" then (match ts with | x :: r => some (.var x, r) | _ => none)
    else if t == "i" then
      (match ts with
       | a :: r => (parseE f r).map fun p => (.idx a p.1, p.2)
       | _ => none)
    else if t == "b" || t == "c" then
      (match ts with
       | op :: r => do
         let (a, r1) ← parseE f r
         let (b, r2) ← parseE f r1
         some (if t == "b" then .bin (opOf op) a b else .cmp (opOf op) a b, r2)
       | _ => none)
    else if t == "neg" then (parseE f ts).map fun p => (.neg p.1, p.2)
    else if t == "bnot" then (parseE f ts).map fun p => (.bnot p.1, p.2)
    else if t == "not" then (parseE f ts).map fun p => (.lnot p.1, p.2)
    else if t == "land" || t == "lor" then do
      let (a, r1) ← parseE f ts
      let (b, r2) ← parseE f r1
      some (if t == "land" then .land a b else .lor a b, r2)
    else if t == "t" then do
      let (c, r1) ← parseE f ts
      let (a, r2) ← parseE f r1
      let (b, r3) ← parseE f r2
      some (.tern c a b, r3)
    else if t == "asg" then do
      let (lv, r1) ← parseE f ts
      let (e, r2) ← parseE f r1
      some (.asg lv e, r2)
    else if t == "oas" then
      (match ts with
       | op :: r => do
         let (lv, r1) ← parseE f r
         let (e, r2) ← parseE f r1
         some (.opasg (opOf op) lv e, r2)
       | _ => none)
    else if t == "pre" || t == "post" then
      (match ts with
       | op :: r => (parseE f r).map fun p => (if t == "pre" then .pre (opOf op) p.1 else .post (opOf op) p.1, p.2)
       | _ => none)
    else if t == "call" then (match ts with | g :: r => some (.call g, r) | _ => none)
    else none

def parseOptE (f : Nat) (ts : List String) : Option (Option Expr × List String) :=
  match ts with
  | "-" :: r => some (none, r)
  | _ => (parseE f ts).map fun p => (some p.1, p.2)

mutual
def parseS : Nat → List String → Option (Stmt × List String)
  | 0, _ => none
  | _, [] => none
  | f + 1, t :: ts =>
    if t == "E" then (parseE (f + 1) ts).map fun p => (.expr p.1, p.2)
    else if t == "if" then do
      let (c, r1) ← parseE (f + 1) ts
      let (th, r2) ← parseS f r1
      match r2 with
      | "-" :: r3 => some (.ite c th none, r3)
      | _ => let (el, r3) ← parseS f r2; some (.ite c th (some el), r3)
    else if t == "wh" then do
      let (c, r1) ← parseE (f + 1) ts
      let (b, r2) ← parseS f r1
      some (.while_ c b, r2)
    else if t == "dw" then do
      let (b, r1) ← parseS f ts
      let (c, r2) ← parseE (f + 1) r1
      some (.dowhile b c, r2)
    else if t == "for" then do
      let (i, r1) ← parseOptE (f + 1) ts
      let (c, r2) ← parseOptE (f + 1) r1
      let (u, r3) ← parseOptE (f + 1) r2
      let (b, r4) ← parseS f r3
      some (.for_ i c u b, r4)
    else if t == "blk" then
      (match ts with
       | n :: r => do let n ← n.toNat?; let (ss, r1) ← parseSs f n r; some (.block ss, r1)
       | _ => none)
    else if t == "brk" then some (.break_, ts)
    else if t == "cont" then some (.continue_, ts)
    else if t == "ret" then some (.ret, ts)
    else if t == "sw" then do
      let (e, r1) ← parseE (f + 1) ts
      match r1 with
      | nc :: r2 => do
        let nc ← nc.toNat?
        let (cases, r3) ← parseCases f nc r2
        match r3 with
        | "-" :: r4 => some (.switch e cases none, r4)
        | "d" :: n :: r4 => do let n ← n.toNat?; let (ss, r5) ← parseSs f n r4; some (.switch e cases (some ss), r5)
        | _ => none
      | _ => none
    else none

def parseSs : Nat → Nat → List String → Option (List Stmt × List String)
  | 0, _, _ => none
  | _ + 1, 0, ts => some ([], ts)
  | f + 1, n + 1, ts => do
    let (s, r1) ← parseS f ts
    let (ss, r2) ← parseSs f n r1
    some (s :: ss, r2)

def parseCases : Nat → Nat → List String → Option (List (List Int × List Stmt) × List String)
  | 0, _, _ => none
  | _ + 1, 0, ts => some ([], ts)
  | f + 1, n + 1, ts =>
    match ts with
    | nv :: r => do
      let nv ← nv.toNat?
      let vals ← (r.take nv).mapM String.toInt?
      match r.drop nv with
      | ns :: r2 => do
        let ns ← ns.toNat?
        let (ss, r3) ← parseSs f ns r2
        let (rest, r4) ← parseCases f n r3
        some ((vals, ss) :: rest, r4)
      | _ => none
    | _ => none
end

end CV.CSem
