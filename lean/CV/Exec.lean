/-
  CV.Exec — line-level small-step semantics of a set of functions.
  pc = (function index, line index); labels are resolved by first-occurrence lookup in
  the current function, then among function names. `JSR`/`RTS` keep a return stack
  beside the CPU (SP still moves by two, the two bytes are not written: no generated
  code looks at them). Cycle counting follows CV.Encode (+1 for a taken branch; page
  crossings are not modelled).
-/
import CV.Asm
namespace CV

/-- a resolved line -/
inductive RLine where
  | label (l : String)
  | ins (mn : Mn) (o : Opd) (cyc : Nat) (tid : Nat)   -- tid ≠ 0: traced (protected / inline)
  | skip
  | bad (why : String)
  deriving Repr, Inhabited

structure Fn where
  name : String
  code : Array RLine
  deriving Inhabited

structure Prog where
  fns : Array Fn
  deriving Inhabited

/-- split-port regions for C17. Reading the write port, writing the read port, or a
    read-modify-write on either is a fault. -/
structure Port where
  wlo : Nat      -- write port  [wlo, wlo+len)
  rlo : Nat      -- read port   [rlo, rlo+len); the cells live here
  len : Nat
  deriving Repr, Inhabited

inductive Stop where
  | running | done | fuel | fault (why : String)
  deriving Repr, DecidableEq, Inhabited

structure St where
  cpu : Cpu
  fn : Nat
  pc : Nat
  rstack : List (Nat × Nat) := []
  cycles : Nat := 0
  steps : Nat := 0
  trace : List Nat := []        -- reversed
  tcyc : List Nat := []         -- cycle count *before* each traced instruction (reversed)
  ntrace : Nat := 0
  faults : Nat := 0
  stop : Stop := .running
  deriving Inhabited

def findLabel (code : Array RLine) (l : String) : Option Nat :=
  code.findIdx? fun r => match r with | .label l' => l' == l | _ => false

def Prog.findFn (p : Prog) (n : String) : Option Nat := p.fns.findIdx? (·.name == n)

/-- target of a jump/branch to label `l` from function `f` -/
def Prog.target (p : Prog) (f : Nat) (l : String) : Option (Nat × Nat) :=
  match p.fns[f]? with
  | none => none
  | some fn =>
    match findLabel fn.code l with
    | some i => some (f, i)
    | none => (p.findFn l).map fun g => (g, 0)

inductive Acc where | rd | wr | rmw deriving DecidableEq

def accessKind : Mn → Option Acc
  | .STA | .STX | .STY => some .wr
  | .INC | .DEC | .ASL | .LSR | .ROL | .ROR => some .rmw
  | .LDA | .LDX | .LDY | .ADC | .SBC | .AND | .ORA | .EOR | .CMP | .CPX | .CPY | .BIT => some .rd
  | _ => none

/-- translate an effective address through the split-port map; returns (address, fault) -/
def xlat (ports : List Port) (a : Nat) (k : Acc) : Nat × Bool :=
  match ports.find? fun p => (p.wlo ≤ a && a < p.wlo + p.len) || (p.rlo ≤ a && a < p.rlo + p.len) with
  | none => (a, false)
  | some p =>
    let inW := p.wlo ≤ a && a < p.wlo + p.len
    let cell := if inW then a - p.wlo + p.rlo else a
    match k with
    | .rd => (cell, inW)
    | .wr => (cell, !inW)
    | .rmw => (cell, true)

/-- run-time configuration: split-port map and the address range whose accesses are logged
    (hardware registers: every read and write is an observable event) -/
structure Cfg where
  ports : List Port := []
  vlo : Nat := 0
  vhi : Nat := 0       -- [vlo, vhi) ; empty when vhi ≤ vlo
  deriving Inhabited

def accCode : Acc → Nat
  | .rd => 1 | .wr => 2 | .rmw => 3

def step (p : Prog) (cfg : Cfg) (s : St) : St :=
  let ports := cfg.ports
  match p.fns[s.fn]? with
  | none => { s with stop := .fault "no such function" }
  | some fn =>
  match fn.code[s.pc]? with
  | none => { s with stop := .fault "fell off the end of a function" }
  | some (.label _) | some .skip => { s with pc := s.pc + 1 }
  | some (.bad why) => { s with stop := .fault why }
  | some (.ins mn o cyc tid) =>
    let s := { s with steps := s.steps + 1, cycles := s.cycles + cyc,
                      tcyc := if tid != 0 && s.ntrace < 4096 then s.cycles :: s.tcyc else s.tcyc,
                      trace := if tid != 0 && s.ntrace < 4096 then tid :: s.trace else s.trace,
                      ntrace := if tid != 0 then s.ntrace + 1 else s.ntrace }
    if mn.isCondBranch then
      match Cpu.taken s.cpu.f mn, o with
      | some true, .lbl l =>
        (match p.target s.fn l with
         | some (f, i) => { s with fn := f, pc := i, cycles := s.cycles + 1 }
         | none => { s with stop := .fault ("undefined label " ++ l) })
      | some false, _ => { s with pc := s.pc + 1 }
      | _, _ => { s with stop := .fault "bad branch" }
    else match mn with
    | .JMP =>
      (match o with
       | .lbl l =>
         (match p.target s.fn l with
          | some (f, i) => { s with fn := f, pc := i }
          | none => { s with stop := .fault ("undefined label " ++ l) })
       | _ => { s with stop := .fault "bad JMP" })
    | .JSR =>
      (match o with
       | .lbl l =>
         (match p.findFn l with
          | some g => { s with fn := g, pc := 0, rstack := (s.fn, s.pc + 1) :: s.rstack,
                               cpu := { s.cpu with sp := s.cpu.sp - 2 } }
          | none => { s with stop := .fault ("undefined function " ++ l) })
       | _ => { s with stop := .fault "bad JSR" })
    | .RTS | .RTI =>
      (match s.rstack with
       | [] => { s with stop := .done }
       | (f, i) :: r => { s with fn := f, pc := i, rstack := r,
                                 cpu := { s.cpu with sp := s.cpu.sp + 2 } })
    | .BRK => { s with stop := .fault "BRK" }
    | _ =>
      -- data instruction, possibly through the split-port map
      let (o', flt) :=
        if ports.isEmpty then (o, false) else
        match s.cpu.ea o, accessKind mn with
        | some a, some k => let (a', f) := xlat ports a.toNat k; (Opd.mem (BitVec.ofNat 16 a'), f)
        | _, _ => (o, false)
      -- log accesses to the volatile range: 100000 + kind * 65536 + address
      let s := match s.cpu.ea o, accessKind mn with
        | some a, some k =>
          if cfg.vlo ≤ a.toNat && a.toNat < cfg.vhi then
            { s with tcyc := if s.ntrace < 4096 then s.cycles :: s.tcyc else s.tcyc,
                     trace := if s.ntrace < 4096 then (100000 + accCode k * 65536 + a.toNat) :: s.trace else s.trace,
                     ntrace := s.ntrace + 1 }
          else s
        | _, _ => s
      match s.cpu.exec mn o' with
      | some c => { s with cpu := c, pc := s.pc + 1, faults := if flt then s.faults + 1 else s.faults }
      | none => { s with stop := .fault ("cannot execute " ++ mn.name) }

def run (p : Prog) (cfg : Cfg) : Nat → St → St
  | 0, s => if s.stop == .running then { s with stop := .fuel } else s
  | n + 1, s => if s.stop == .running then run p cfg n (step p cfg s) else s

/-! ### loading: text lines → resolved lines -/

/-- base cycles of a resolved instruction (0 if illegal: the loader flags it `bad` first) -/
def cyclesOf (mn : Mn) (m : Mode) : Nat := (encCycles mn m).getD 0

def resolveLine (env : Env) (tidOf : Line → Nat) (l : Line) : RLine :=
  match l with
  | .label s => .label s
  | .comment _ | .dummy => .skip
  | .instr i =>
    (match resolve env i.mn i.opd with
     | some (o, m) => .ins i.mn o (cyclesOf i.mn m) (tidOf l)
     | none => .bad ("does not assemble: " ++ i.mn.name ++ " " ++ i.opd))
  | .inline t _ =>
    (match parseInline t with
     | some (mn, opd) =>
       (match resolve env mn opd with
        | some (o, m) => .ins mn o (cyclesOf mn m) (tidOf l)
        | none => .bad ("inline does not assemble: " ++ t))
     | none => .bad ("unsupported inline text: " ++ t))

end CV
