/-
  CV.Valid — a translation validator for the peephole optimiser (property C02).

  `optimize` only ever replaces instructions by `Dummy` lines (and removes nothing else), so the code before
  and after it has the same length, the same labels at the same positions. `validate orig opt` accepts such a
  pair when every replaced instruction is justified by one of a few local arguments, using
    * facts about the machine state that hold whenever control reaches a line of `orig` (`Facts`: "A still
      equals operand o", "X equals A", "N/Z describe X", …), computed by a conservative forward pass that
      forgets everything at labels and after anything it does not understand, and
    * the resources (A, X, Y, N/Z) that `opt` overwrites before reading them (`deadFrom`, a linear scan that
      stops at every label, branch, jump, call and return).
  CV.Props.C02 proves: if `validate orig opt = true` then, from every machine state, `opt` halts exactly when
  `orig` does and in the same complete state (A, X, Y, SP, flags, memory). The validator is the author's, not
  the optimiser's: its acceptance is checked per function on every run; a rejected function is counted as
  uncertified (it is then covered by co-execution only), never as a violation.
-/
import CV.Mos
namespace CV.Valid
open CV

inductive VLine where
  | ins (mn : Mn) (o : Opd)         -- data instruction with the semantics of CV.Cpu.exec
  | br (mn : Mn) (l : String)       -- conditional branch
  | jmp (l : String)
  | lab (l : String)
  | dummy                           -- a removed line / a comment
  | rts
  | ext (id : Nat)                  -- call, inline assembly, anything else: an arbitrary transformer of the
                                    -- machine state, the same (by `id`) in both programs
  deriving Repr, DecidableEq, Inhabited

abbrev VCode := List VLine

/-! ### the machine -/

def findLab : VCode → String → Option Nat
  | [], _ => none
  | .lab l' :: r, l => if l' = l then some 0 else (findLab r l).map (· + 1)
  | _ :: r, l => (findLab r l).map (· + 1)

inductive Outcome where
  | next (pc : Nat) (s : Cpu)
  | halt (s : Cpu)
  | stuck

def step (extF : Nat → Cpu → Cpu) (code : VCode) (pc : Nat) (s : Cpu) : Outcome :=
  match code[pc]? with
  | none => .stuck
  | some (.ins mn o) => (match s.exec mn o with | some s' => .next (pc + 1) s' | none => .stuck)
  | some (.br mn l) =>
    (match Cpu.taken s.f mn with
     | some true => (match findLab code l with | some t => .next t s | none => .stuck)
     | some false => .next (pc + 1) s
     | none => .stuck)
  | some (.jmp l) => (match findLab code l with | some t => .next t s | none => .stuck)
  | some (.lab _) | some .dummy => .next (pc + 1) s
  | some .rts => .halt s
  | some (.ext id) => .next (pc + 1) (extF id s)

/-- run for at most `n` steps; `some s` = halted at an RTS in state `s` -/
def run (extF : Nat → Cpu → Cpu) (code : VCode) : Nat → Nat → Cpu → Option Cpu
  | 0, _, _ => none
  | n + 1, pc, s =>
    match step extF code pc s with
    | .next pc' s' => run extF code n pc' s'
    | .halt s' => some s'
    | .stuck => none

/-! ### resources an instruction reads and writes -/

inductive Res where | a | x | y | nz | c
  deriving DecidableEq, Repr

def Opd.usesX : Opd → Bool
  | .memX _ _ | .indX _ => true
  | _ => false

def Opd.usesY : Opd → Bool
  | .memY _ _ | .indY _ => true
  | _ => false

/-- zero page / absolute, possibly indexed: the effective address does not depend on memory -/
def Opd.direct : Opd → Bool
  | .mem _ | .memX _ _ | .memY _ _ => true
  | _ => false

/-- the mnemonics the validator reasons about; every other instruction is loaded as `ext` -/
def supported : Mn → Bool
  | .LDA | .LDX | .LDY | .STA | .STX | .STY | .TAX | .TAY | .TXA | .TYA
  | .ADC | .SBC | .EOR | .AND | .ORA | .CLC | .SEC | .CMP | .CPX | .CPY
  | .INC | .DEC | .INX | .INY | .DEX | .DEY | .NOP | .ASL | .LSR | .ROL | .ROR | .PHA | .PLA => true
  | _ => false

/-- a shift or rotate of the accumulator (no operand) -/
def accShift (mn : Mn) (o : Opd) : Bool :=
  (mn == .ASL || mn == .LSR || mn == .ROL || mn == .ROR) && o == .none

def readsReg (mn : Mn) (o : Opd) (r : Res) : Bool :=
  (r == .x && Opd.usesX o) || (r == .y && Opd.usesY o) ||
  (accShift mn o && r == .a) || ((mn == .ROL || mn == .ROR) && r == .c) ||
  (match mn, r with
   | .STA, .a | .TAX, .a | .TAY, .a | .ADC, .a | .SBC, .a | .EOR, .a | .AND, .a | .ORA, .a | .CMP, .a | .PHA, .a => true
   | .ADC, .c | .SBC, .c => true
   | .STX, .x | .TXA, .x | .CPX, .x | .INX, .x | .DEX, .x => true
   | .STY, .y | .TYA, .y | .CPY, .y | .INY, .y | .DEY, .y => true
   | _, _ => false)

/-- resources completely overwritten -/
def writesReg (mn : Mn) (o : Opd) (r : Res) : Bool :=
  (accShift mn o && r == .a) ||
  ((mn == .ASL || mn == .LSR || mn == .ROL || mn == .ROR) && (r == .nz || r == .c)) ||
  match mn, r with
  | .LDA, .a | .TXA, .a | .TYA, .a | .ADC, .a | .SBC, .a | .EOR, .a | .AND, .a | .ORA, .a | .PLA, .a => true
  | .LDX, .x | .TAX, .x | .INX, .x | .DEX, .x => true
  | .LDY, .y | .TAY, .y | .INY, .y | .DEY, .y => true
  | .LDA, .nz | .LDX, .nz | .LDY, .nz | .TAX, .nz | .TAY, .nz | .TXA, .nz | .TYA, .nz
  | .ADC, .nz | .SBC, .nz | .EOR, .nz | .AND, .nz | .ORA, .nz | .CMP, .nz | .CPX, .nz | .CPY, .nz
  | .INC, .nz | .DEC, .nz | .INX, .nz | .INY, .nz | .DEX, .nz | .DEY, .nz | .PLA, .nz => true
  | .ADC, .c | .SBC, .c | .CMP, .c | .CPX, .c | .CPY, .c | .CLC, .c | .SEC, .c => true
  | _, _ => false

/-- what a function need not preserve for its caller: the N, Z and C flags at the return (the generator never
    assumes anything about the flags behind a `JSR`: `generate_function_call` sets them Unknown, a returned value
    is compared again) -/
def exitDead : Res → Bool
  | .nz | .c => true
  | _ => false

/-- the flag a conditional branch tests -/
def brReads (mn : Mn) (r : Res) : Bool :=
  match mn, r with
  | .BEQ, .nz | .BNE, .nz | .BMI, .nz | .BPL, .nz => true
  | .BCC, .c | .BCS, .c => true
  | _, _ => false

/-- a liveness table: for every resource, one flag per line ("dead before this line") -/
structure DTable where
  a : List Bool
  x : List Bool
  y : List Bool
  nz : List Bool
  c : List Bool

def DTable.row (D : DTable) : Res → List Bool
  | .a => D.a | .x => D.x | .y => D.y | .nz => D.nz | .c => D.c

def DTable.at (D : DTable) (r : Res) (k : Nat) : Bool := (D.row r).getD k false

def DTable.empty : DTable := ⟨[], [], [], [], []⟩

def allRes : List Res := [.a, .x, .y, .nz, .c]

/-- what a table may claim at line `k`: dead before a line only if the line does not read the resource and either
    overwrites it or it is dead before every successor; at the return exactly the flags; nothing before a call or
    any other instruction outside the reasoned set -/
def localOK (code : VCode) (D : DTable) (r : Res) (k : Nat) : Bool :=
  !D.at r k ||
  (match code[k]? with
   | some .dummy | some (.lab _) => D.at r (k + 1)
   | some (.ins mn o) => !readsReg mn o r && (writesReg mn o r || D.at r (k + 1))
   | some .rts => exitDead r
   | some (.br mn l) =>
     !brReads mn r && D.at r (k + 1) && (match findLab code l with | some t => D.at r t | none => false)
   | some (.jmp l) => (match findLab code l with | some t => D.at r t | none => false)
   | _ => false)

/-- the table is a post-fixed point of the liveness equations: every claim is justified locally. This is all
    the soundness proof needs; how the table was found does not matter -/
def consistentB (code : VCode) (D : DTable) : Bool :=
  allRes.all fun r => (List.range ((D.row r).length)).all fun k => localOK code D r k

/-- one backward sweep of the equations over a candidate for one resource (claims can only be withdrawn; the
    sweep runs from the last line to the first, so straight-line code settles in one sweep). How the candidate is
    found is irrelevant for soundness: only `consistentB` is trusted. -/
def sweep (code : Array VLine) (tgt : Array (Option Nat)) (r : Res) (d : Array Bool) : Array Bool × Bool :=
  (List.range code.size).foldr (fun k (acc : Array Bool × Bool) =>
    let d := acc.1
    let old := d.getD k false
    let v := old &&
      (match code[k]? with
       | some .dummy | some (.lab _) => d.getD (k + 1) false
       | some (.ins mn o) => !readsReg mn o r && (writesReg mn o r || d.getD (k + 1) false)
       | some .rts => exitDead r
       | some (.br mn _) =>
         !brReads mn r && d.getD (k + 1) false && (match tgt.getD k none with | some t => d.getD t false | none => false)
       | some (.jmp _) => (match tgt.getD k none with | some t => d.getD t false | none => false)
       | _ => false)
    if v == old then acc else (d.set! k v, true)) (d, false)

def sweeps (code : Array VLine) (tgt : Array (Option Nat)) (r : Res) : Nat → Array Bool → Array Bool
  | 0, d => d
  | n + 1, d => let p := sweep code tgt r d; if p.2 then sweeps code tgt r n p.1 else p.1

/-- the candidate: start from "everything is dead everywhere" and withdraw claims until nothing changes
    (the greatest solution: a resource that is never read again is dead, also around loops) -/
def candidate (code : VCode) : DTable :=
  let arr := code.toArray
  let tgt : Array (Option Nat) := arr.map fun l =>
    match l with
    | .br _ l => findLab code l
    | .jmp l => findLab code l
    | _ => none
  let f : Res → List Bool := fun r => (sweeps arr tgt r 64 (Array.replicate arr.size true)).toList
  ⟨f .a, f .x, f .y, f .nz, f .c⟩

/-- the table the validator uses: the candidate if it checks, else "nothing is dead" (which always checks) -/
def deadTable (code : VCode) : DTable :=
  let D := candidate code
  if consistentB code D then D else DTable.empty

/-- is `r` dead before line `pos`? -/
def dead (code : VCode) (r : Res) (pos : Nat) : Bool := (deadTable code).at r pos

/-! ### facts -/

/-- what a register is known to be equal to -/
inductive Src where
  | opd (o : Opd)     -- the value the operand denotes *now* (immediate or memory)
  | ra | rx | ry
  deriving DecidableEq, Repr

structure Facts where
  a : List Src := []
  x : List Src := []
  y : List Src := []
  nz : Option Res := none      -- N/Z describe this register (`.a`, `.x` or `.y`)
  z : Option Bool := none      -- the value of the Z flag
  deriving DecidableEq, Repr, Inhabited

def Facts.top : Facts := {}

def regVal (s : Cpu) : Res → Byte
  | .a => s.a | .x => s.x | .y => s.y | _ => 0

def srcHolds (s : Cpu) (v : Byte) : Src → Prop
  | .opd o => s.rd o = some v
  | .ra => s.a = v
  | .rx => s.x = v
  | .ry => s.y = v

def optHolds (s : Cpu) (v : Byte) (l : List Src) : Prop := ∀ src ∈ l, srcHolds s v src

def nzHolds (s : Cpu) : Option Res → Prop
  | none => True
  | some r => s.f.n = (regVal s r).msb ∧ s.f.z = (regVal s r == 0)

def zHolds (s : Cpu) : Option Bool → Prop
  | none => True
  | some b => s.f.z = b

def Facts.holds (K : Facts) (s : Cpu) : Prop :=
  optHolds s s.a K.a ∧ optHolds s s.x K.x ∧ optHolds s s.y K.y ∧ nzHolds s K.nz ∧ zHolds s K.z

/-- does a source mention memory / X / Y / A ? -/
def Src.isMem : Src → Bool
  | .opd (.imm _) => false
  | .opd _ => true
  | _ => false

def Src.usesX : Src → Bool
  | .opd o => Opd.usesX o
  | .rx => true
  | _ => false

def Src.usesY : Src → Bool
  | .opd o => Opd.usesY o
  | .ry => true
  | _ => false

def Src.usesA : Src → Bool
  | .ra => true
  | _ => false

def clr (p : Src → Bool) (l : List Src) : List Src := l.filter fun s => !p s

def Facts.kill (K : Facts) (p : Src → Bool) : Facts :=
  { K with a := clr p K.a, x := clr p K.x, y := clr p K.y }

def Facts.killNZ (K : Facts) (r : Res) : Facts :=
  if K.nz == some r then { K with nz := none } else K

def Facts.reg (K : Facts) : Res → List Src
  | .a => K.a | .x => K.x | .y => K.y | _ => []

/-- the constant a register is known to hold -/
def knownImm : List Src → Option Byte
  | [] => none
  | .opd (.imm v) :: _ => some v
  | _ :: r => knownImm r

/-- Z after comparing a register known to hold the constant `v` with the constant `c` -/
def cmpZ (K : Facts) (r : Res) (o : Opd) : Option Bool :=
  match knownImm (K.reg r), o with
  | some v, .imm c => some (v == c)
  | _, _ => none

/-- facts after a data instruction -/
def xfer (K : Facts) (mn : Mn) (o : Opd) : Facts :=
  match mn with
  -- a load of what the register already holds changes only the flags
  | .LDA => if K.a.contains (.opd o) then { K with nz := some .a, z := none }
            else { (K.kill Src.usesA) with a := [.opd o], nz := some .a, z := none }
  | .LDX => if K.x.contains (.opd o) then { K with nz := some .x, z := none }
            else { (K.kill Src.usesX) with x := if Opd.usesX o then [] else [.opd o], nz := some .x, z := none }
  | .LDY => if K.y.contains (.opd o) then { K with nz := some .y, z := none }
            else { (K.kill Src.usesY) with y := if Opd.usesY o then [] else [.opd o], nz := some .y, z := none }
  -- after a store the register equals the cell (for direct operands: an indirect one may have overwritten
  -- its own pointer)
  | .STA => let K' := K.kill Src.isMem; { K' with a := if Opd.direct o then .opd o :: K'.a else K'.a }
  | .STX => let K' := K.kill Src.isMem; { K' with x := if Opd.direct o && !Opd.usesX o then .opd o :: K'.x else K'.x }
  | .STY => let K' := K.kill Src.isMem; { K' with y := if Opd.direct o && !Opd.usesY o then .opd o :: K'.y else K'.y }
  | .TAX => let K' := K.kill Src.usesX; { K' with x := .ra :: clr Src.usesX K'.a, nz := some .x, z := none }
  | .TAY => let K' := K.kill Src.usesY; { K' with y := .ra :: clr Src.usesY K'.a, nz := some .y, z := none }
  | .TXA => let K' := K.kill Src.usesA; { K' with a := .rx :: K'.x, nz := some .a, z := none }
  | .TYA => let K' := K.kill Src.usesA; { K' with a := .ry :: K'.y, nz := some .a, z := none }
  | .ORA => if o == .imm 0 then { K with nz := some .a, z := none }
            else { (K.kill Src.usesA) with a := [], nz := some .a, z := none }
  | .ADC | .SBC | .EOR | .AND => { (K.kill Src.usesA) with a := [], nz := some .a, z := none }
  | .ASL | .LSR | .ROL | .ROR =>
    if o == .none then { (K.kill Src.usesA) with a := [], nz := some .a, z := none }
    else { (K.kill Src.isMem) with nz := none, z := none }
  | .CLC | .SEC | .NOP => K
  | .CMP => { K with nz := none, z := cmpZ K .a o }
  | .CPX => { K with nz := none, z := cmpZ K .x o }
  | .CPY => { K with nz := none, z := cmpZ K .y o }
  | .INC | .DEC => { (K.kill Src.isMem) with nz := none, z := none }
  | .INX | .DEX => { (K.kill Src.usesX) with x := [], nz := some .x, z := none }
  | .INY | .DEY => { (K.kill Src.usesY) with y := [], nz := some .y, z := none }
  -- the stack: a push writes one cell of memory (whichever it is), a pull replaces A
  | .PHA => K.kill Src.isMem
  | .PLA => { (K.kill Src.usesA) with a := [], nz := some .a, z := none }
  | _ => Facts.top

/-- facts holding whenever control is at the line *after* `l` having fallen through it;
    `none` = that point cannot be reached by falling through -/
def post (K : Option Facts) (l : VLine) : Option Facts :=
  match K, l with
  | none, _ => none
  | some K, .ins mn o => some (xfer K mn o)
  | some K, .br _ _ => some K
  | some _, .jmp _ => none
  | some _, .rts => none
  | some _, .lab _ => some Facts.top
  | some K, .dummy => some K
  | some _, .ext _ => some Facts.top

/-- facts at every position: nothing at the entry and at labels -/
def factsFrom (K : Option Facts) : VCode → List (Option Facts)
  | [] => []
  | l :: rest =>
    let K0 := match l with | .lab _ => some Facts.top | _ => K
    K0 :: factsFrom (post K0 l) rest

def factsOf (code : VCode) : List (Option Facts) := factsFrom (some Facts.top) code

/-! ### the justifications -/

def loadReg : Mn → Option Res
  | .LDA => some .a | .LDX => some .x | .LDY => some .y | _ => none

def storeReg : Mn → Option Res
  | .STA => some .a | .STX => some .x | .STY => some .y | _ => none

/-- the two registers of a transfer: (source, destination) -/
def transfer : Mn → Option (Res × Res)
  | .TAX => some (.a, .x) | .TAY => some (.a, .y) | .TXA => some (.x, .a) | .TYA => some (.y, .a)
  | _ => none

def srcOfReg : Res → Src
  | .a => .ra | .x => .rx | .y => .ry | _ => .ra

/-- the two registers are known to be equal -/
def sameReg (K : Facts) (r1 r2 : Res) : Bool :=
  (K.reg r1).contains (srcOfReg r2) || (K.reg r2).contains (srcOfReg r1)

/-- may the data instruction at position `k` of `orig` be replaced by a dummy? `nzDead`, `dA`, … : deadness in
    `opt` right after `k` -/
def removable (K : Facts) (deadAfter : Res → Bool) (mn : Mn) (o : Opd) : Bool :=
  -- (1) a write to registers that nothing reads before they are written again
  ((loadReg mn).isSome || (transfer mn).isSome) &&
    ((match loadReg mn with | some r => deadAfter r | none => true) &&
     (match transfer mn with | some (_, d) => deadAfter d | none => true) && deadAfter .nz)
  ||
  -- (2) a load of what the register already holds
  (match loadReg mn with
   | some r => (K.reg r).contains (.opd o) && (K.nz == some r || deadAfter .nz)
   | none => false)
  ||
  -- (3) a transfer between registers that are already equal
  (match transfer mn with
   | some (sr, d) => sameReg K sr d && (K.nz == some sr || K.nz == some d || deadAfter .nz)
   | none => false)
  ||
  -- (4) a store of what the cell already holds
  (match storeReg mn with
   | some r => (K.reg r).contains (.opd o)
   | none => false)
  ||
  -- (5) ORA #0
  (mn == .ORA && o == .imm 0 && (K.nz == some .a || deadAfter .nz))
  ||
  -- (6) a compare whose flags nothing reads
  ((mn == .CMP || mn == .CPX || mn == .CPY) && deadAfter .nz && deadAfter .c)

/-- the operand kind fits the mnemonic, so that the instruction cannot be stuck -/
def execOK (mn : Mn) (o : Opd) : Bool :=
  match mn with
  | .LDA | .LDX | .LDY | .ORA | .CMP | .CPX | .CPY =>
    (match o with | .none | .lbl _ => false | _ => true)
  | .STA | .STX | .STY =>
    (match o with | .none | .lbl _ | .imm _ => false | _ => true)
  | .TAX | .TAY | .TXA | .TYA | .CLC | .SEC => true
  | _ => false

/-- all lines of `opt` strictly between `k` and `t` are dummies or labels -/
def onlyFiller (opt : VCode) (k t : Nat) : Bool :=
  (List.range (t - (k + 1))).all fun i =>
    match opt[k + 1 + i]? with
    | some .dummy | some (.lab _) => true
    | _ => false

def lineOK (orig opt : VCode) (k : Nat) (K : Option Facts) (lo lp : VLine) : Bool :=
  if lo == lp then (match lo with | .ins mn _ => supported mn | _ => true)
  else match K, lo, lp with
    | none, _, .dummy => (match lo with | .lab _ => false | _ => true)      -- unreachable line removed
    | some K, .ins mn o, .dummy =>
      (supported mn && execOK mn o && removable K (fun r => dead opt r (k + 1)) mn o) ||
      -- second half of `LDA o ; CLC|SEC` → `CLC|SEC ; (load removed)`
      ((mn == .CLC || mn == .SEC) && o == .none && decide (0 < k) && opt[k - 1]? == some (.ins mn .none) &&
        (match orig[k - 1]? with | some (.ins .LDA _) => true | _ => false))
    | some _, .jmp l, .dummy =>
      (match findLab orig l with
       | some t => decide (k < t) && onlyFiller opt k t
       | none => false)
    -- a conditional branch that is known not to be taken
    | some K, .br .BEQ _, .dummy => K.z == some false
    | some K, .br .BNE _, .dummy => K.z == some true
    -- `LDA o ; CLC|SEC` exchanged (first half at k, second half at k + 1)
    | some K, .ins .LDA o, .ins c .none =>
      (c == .CLC || c == .SEC) && execOK .LDA o && orig[k + 1]? == some (.ins c .none) &&
        (opt[k + 1]? == some (.ins .LDA o) ||
         -- … and the exchanged load removed afterwards
         (opt[k + 1]? == some .dummy && removable K (fun r => r == .c || dead opt r (k + 2)) .LDA o))
    | some _, .ins c .none, .ins .LDA o =>
      (c == .CLC || c == .SEC) && decide (0 < k) && orig[k - 1]? == some (.ins .LDA o) && opt[k - 1]? == some (.ins c .none)
    | _, _, _ => false

/-- DIAGNOSTIC ONLY (no theorem is about it): `lineOK` with the resources `extra` assumed dead everywhere. The check
    uses it to name the reason of a rejection ("would be accepted if the carry were dead") -/
def lineOKWith (extra : Res → Bool) (orig opt : VCode) (D : DTable) (k : Nat) (K : Option Facts) (lo lp : VLine) : Bool :=
  if lo == lp then (match lo with | .ins mn _ => supported mn | _ => true)
  else match K, lo, lp with
    | none, _, .dummy => (match lo with | .lab _ => false | _ => true)      -- unreachable line removed
    | some K, .ins mn o, .dummy =>
      (supported mn && execOK mn o && removable K (fun r => extra r || D.at r (k + 1)) mn o) ||
      -- second half of `LDA o ; CLC|SEC` → `CLC|SEC ; (load removed)`
      ((mn == .CLC || mn == .SEC) && o == .none && decide (0 < k) && opt[k - 1]? == some (.ins mn .none) &&
        (match orig[k - 1]? with | some (.ins .LDA _) => true | _ => false))
    | some _, .jmp l, .dummy =>
      (match findLab orig l with
       | some t => decide (k < t) && onlyFiller opt k t
       | none => false)
    -- a conditional branch that is known not to be taken
    | some K, .br .BEQ _, .dummy => K.z == some false
    | some K, .br .BNE _, .dummy => K.z == some true
    -- `LDA o ; CLC|SEC` exchanged (first half at k, second half at k + 1)
    | some K, .ins .LDA o, .ins c .none =>
      (c == .CLC || c == .SEC) && execOK .LDA o && orig[k + 1]? == some (.ins c .none) &&
        (opt[k + 1]? == some (.ins .LDA o) ||
         -- … and the exchanged load removed afterwards
         (opt[k + 1]? == some .dummy && removable K (fun r => extra r || r == .c || D.at r (k + 2)) .LDA o))
    | some _, .ins c .none, .ins .LDA o =>
      (c == .CLC || c == .SEC) && decide (0 < k) && orig[k - 1]? == some (.ins .LDA o) && opt[k - 1]? == some (.ins c .none)
    | _, _, _ => false


def validateWith (extra : Res → Bool) (orig opt : VCode) : Bool :=
  let D := deadTable opt
  orig.length == opt.length &&
    ((factsOf orig).zip (orig.zip opt)).zipIdx.all fun (p, k) => lineOKWith extra orig opt D k p.1 p.2.1 p.2.2

/-- `lineOK` with the liveness table passed in (computed once per function by `validate`) -/
def lineOKD (orig opt : VCode) (D : DTable) (k : Nat) (K : Option Facts) (lo lp : VLine) : Bool :=
  if lo == lp then (match lo with | .ins mn _ => supported mn | _ => true)
  else match K, lo, lp with
    | none, _, .dummy => (match lo with | .lab _ => false | _ => true)      -- unreachable line removed
    | some K, .ins mn o, .dummy =>
      (supported mn && execOK mn o && removable K (fun r => D.at r (k + 1)) mn o) ||
      -- second half of `LDA o ; CLC|SEC` → `CLC|SEC ; (load removed)`
      ((mn == .CLC || mn == .SEC) && o == .none && decide (0 < k) && opt[k - 1]? == some (.ins mn .none) &&
        (match orig[k - 1]? with | some (.ins .LDA _) => true | _ => false))
    | some _, .jmp l, .dummy =>
      (match findLab orig l with
       | some t => decide (k < t) && onlyFiller opt k t
       | none => false)
    -- a conditional branch that is known not to be taken
    | some K, .br .BEQ _, .dummy => K.z == some false
    | some K, .br .BNE _, .dummy => K.z == some true
    -- `LDA o ; CLC|SEC` exchanged (first half at k, second half at k + 1)
    | some K, .ins .LDA o, .ins c .none =>
      (c == .CLC || c == .SEC) && execOK .LDA o && orig[k + 1]? == some (.ins c .none) &&
        (opt[k + 1]? == some (.ins .LDA o) ||
         -- … and the exchanged load removed afterwards
         (opt[k + 1]? == some .dummy && removable K (fun r => r == .c || D.at r (k + 2)) .LDA o))
    | some _, .ins c .none, .ins .LDA o =>
      (c == .CLC || c == .SEC) && decide (0 < k) && orig[k - 1]? == some (.ins .LDA o) && opt[k - 1]? == some (.ins c .none)
    | _, _, _ => false


def checkFrom (orig opt : VCode) : Nat → List (Option Facts) → VCode → VCode → Bool
  | _, [], [], [] => true
  | k, K :: ks, lo :: ro, lp :: rp => lineOK orig opt k K lo lp && checkFrom orig opt (k + 1) ks ro rp
  | _, _, _, _ => false

def checkFromD (orig opt : VCode) (D : DTable) : Nat → List (Option Facts) → VCode → VCode → Bool
  | _, [], [], [] => true
  | k, K :: ks, lo :: ro, lp :: rp => lineOKD orig opt D k K lo lp && checkFromD orig opt D (k + 1) ks ro rp
  | _, _, _, _ => false

/-- the validator -/
def validate (orig opt : VCode) : Bool :=
  orig.length == opt.length && checkFromD orig opt (deadTable opt) 0 (factsOf orig) orig opt

/-- position of the first line the validator does not accept (diagnostics only) -/
def firstBad (orig opt : VCode) : Option Nat :=
  let D := deadTable opt
  let rec go (k : Nat) : List (Option Facts) → VCode → VCode → Option Nat
    | K :: ks, lo :: ro, lp :: rp => if lineOKD orig opt D k K lo lp then go (k + 1) ks ro rp else some k
    | _, _, _ => none
  go 0 (factsOf orig) orig opt

end CV.Valid
