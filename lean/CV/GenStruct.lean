/-
  CV.GenStruct — port of the code generator for the declared fragment, stage 2: structured
  control flow over the statements of stage 1 (CV.GenFlat):
      if (c) S      if (c) S else S      while (c) S      do S while (c);      for (F; c; F) S
      { S ... }     c ::= a ⋈ b  |  v  |  !v        ⋈ ∈ == != < >= > <=     (a, b atoms, unsigned char)
  What is ported (generate_conditions.rs, generate_statements.rs, at -O0):
    * generate_if / generate_while / generate_do_while / generate_for_loop: label allocation from the
      per-kind counters and the order of the pieces;
    * generate_condition / generate_condition_ex / generate_branch_instruction for 8-bit operands:
      operand switch, negation and mirroring of the operator, the `.ifhere` detour of `>`;
    * the generator's belief about the processor flags (`FlagsState`): a test against zero of the
      variable the flags describe emits no load (`a = b; if (a)` → `LDA b ; STA a ; BEQ`); labels
      forget it; `else` restores the belief saved after the condition.
  The port is compared text-for-text (instructions AND labels) with the real -O0 output by the
  C01 check. CV.Props.C01 proves it correct against the 6502 semantics, including the soundness of
  the flag belief, for every program of the fragment.
-/
import CV.GenReg
set_option linter.constructorNameAsVariable false
namespace CV.GenStruct
open CV CV.GenFlat CV.GenReg

inductive COp where | eq | ne | lt | ge | gt | le
  deriving Repr, DecidableEq, Inhabited

inductive Cond where
  | cmp (op : COp) (a b : RA)
  | truth (v : LV)              -- `if (v)`, `if (X)`
  | nottruth (v : LV)           -- `if (!v)`
  | and (a b : Cond)            -- `a && b`
  | or (a b : Cond)             -- `a || b`
  | not (c : Cond)              -- `!(c)`
  | cmpE (op : COp) (e : GExpr) (b : Atom) (eLeft : Bool)   -- `(e) ⋈ b` / `b ⋈ (e)`, e a quiet tree (stage 12)
  | truthE (e : GExpr)          -- `if (e)` for a tree
  | cmpR (op : COp) (e : GExpr) (y : Bool) (eLeft : Bool)   -- a tree against X (`y = false`) or Y (stage 13)
  | wcmp (ne : Bool) (s : String) (w : WA)      -- `s == w` / `s != w` on a 16-bit variable (stage 14); `if (s)` is `s != 0`
  deriving Repr, DecidableEq, Inhabited

inductive SStmt where
  | flat (s : RStmt)
  | skip                                          -- `{ }`
  | forget                                        -- no code: the generator sets its flag belief to Unknown (stage 9)
  | seq (a b : SStmt)
  | ifThen (c : Cond) (t : SStmt)
  | ifElse (c : Cond) (t e : SStmt)
  | while (c : Cond) (b : SStmt)
  | doWhile (b : SStmt) (c : Cond)
  | for (init : RStmt) (c : Cond) (upd : RStmt) (b : SStmt)
  | brk                                           -- `break;`     (stage 5)
  | cont                                          -- `continue;`
  | ifBrk (c : Cond)                              -- `if (c) break;` without braces: one branch to the break label
  | ifCont (c : Cond)                             -- `if (c) continue;`
  deriving Repr, Inhabited

/-- `s++` on a 16-bit variable (stage 9): `INC s ; BNE .ifendN ; INC s+1 ; .ifendN:` — the text the generator
    emits is that of "low byte ++ ; if it became 0, high byte ++", with the flag belief the increment leaves -/
def incW (s : String) : SStmt :=
  .seq (.flat (.inc (.var s))) (.ifThen (.nottruth (.var s)) (.flat (.inc (.el s (.k 1)))))

/-- `s--`: `LDA s ; BNE .ifendN ; DEC s+1 ; .ifendN: ; DEC s`, flags Unknown afterwards -/
def decW (s : String) : SStmt :=
  .seq (.ifThen (.nottruth (.var s)) (.flat (.dec (.el s (.k 1))))) (.seq (.flat (.dec (.var s))) .forget)

/-! ### labels -/

inductive LKind where
  | ifend | else_ | ifhere | ifstart | while_ | whileend | dowhile | dowhileend | dowhilecondition | for_ | forupdate | forend
  deriving Repr, DecidableEq, Inhabited

/-- which of the generator's three counters names a label of this kind -/
inductive Ctr where | cIf | cWhile | cFor
  deriving Repr, DecidableEq, Inhabited

def LKind.ctr : LKind → Ctr
  | .ifend | .else_ | .ifhere | .ifstart => .cIf
  | .while_ | .whileend | .dowhile | .dowhileend | .dowhilecondition => .cWhile
  | .for_ | .forupdate | .forend => .cFor

def LKind.text : LKind → String
  | .ifend => ".ifend" | .else_ => ".else" | .ifhere => ".ifhere" | .ifstart => ".ifstart"
  | .while_ => ".while" | .whileend => ".whileend" | .dowhile => ".dowhile" | .dowhileend => ".dowhileend"
  | .dowhilecondition => ".dowhilecondition"
  | .for_ => ".for" | .forupdate => ".forupdate" | .forend => ".forend"

structure Lbl where
  kind : LKind
  n : Nat
  deriving Repr, DecidableEq, Inhabited

def Lbl.text (l : Lbl) : String := l.kind.text ++ toString l.n

/-- position of a label in the allocation order of its counter: every kind is named with the counter's
    value *after* the increment, except `.ifstart`, which `generate_condition` names with the value
    *before* it (`format!(".ifstart{}", counter); counter += 1`) -/
def Lbl.idx (l : Lbl) : Nat :=
  match l.kind with
  | .ifstart => l.n + 1
  | _ => l.n

/-- one emitted line -/
inductive GLine where
  | ins (mn : Mn) (a : Option Atom)     -- data instruction; `none` = implied operand (CLC, SEC)
  | br (mn : Mn) (l : Lbl)              -- conditional branch
  | jmp (l : Lbl)
  | lab (l : Lbl)
  deriving Repr, DecidableEq, Inhabited

/-! ### the generator's state -/

structure GState where
  flags : Option FRef := none       -- `FlagsState::Absolute(v, true, 0)` / `X` / `Y`; `none` = Unknown
  cIf : Nat := 0
  cWhile : Nat := 0
  cFor : Nat := 0
  abs : List String := []           -- arrays declared outside the zero page (`VariableMemory` ≠ Zeropage)
  deriving Repr, DecidableEq, Inhabited

/-- is the array in the zero page? (decides between `STY t,X` and `TYA ; STA t,X`) -/
def zpL (abs : List String) (t : String) : Bool := !abs.contains t

def GState.ctr (g : GState) : Ctr → Nat
  | .cIf => g.cIf | .cWhile => g.cWhile | .cFor => g.cFor

/-! ### conditions -/

def COp.negate : COp → COp
  | .eq => .ne | .ne => .eq | .gt => .le | .ge => .lt | .lt => .ge | .le => .gt

/-- the operator after the operands were exchanged -/
def COp.mirror : COp → COp
  | .eq => .eq | .ne => .ne | .gt => .lt | .ge => .le | .lt => .gt | .le => .ge

def COp.ordered : COp → Bool
  | .eq | .ne => false | _ => true

/-- `generate_branch_instruction` (unsigned) -/
def branchInstr (g : GState) (op : COp) (label : Lbl) : List GLine × GState :=
  match op with
  | .ne => ([.br .BNE label], g)
  | .eq => ([.br .BEQ label], g)
  | .lt => ([.br .BCC label], g)
  | .ge => ([.br .BCS label], g)
  | .le => ([.br .BCC label, .br .BEQ label], g)
  | .gt =>
    let here : Lbl := ⟨.ifhere, g.cIf + 1⟩
    ([.br .BEQ here, .br .BCS label, .lab here], { g with cIf := g.cIf + 1, flags := none })

/-- an element subscripted by a register -/
def RA.isRegEl : RA → Bool
  | .of (.el _ .x) | .of (.el _ .y) => true
  | _ => false

def RA.isZero : RA → Bool
  | .of (.const n) => n == 0
  | _ => false

/-- operands of a comparison after `generate_condition_ex` put them in order: a register goes left, a
    constant goes right (`switch` = they were exchanged): (left, right, switch) -/
def orient (l r : RA) : RA × RA × Bool :=
  match l with
  | .x | .y => (l, r, false)
  | .of (.const _) => (r, l, true)
  | .of _ => if r.isReg then (r, l, true) else (l, r, false)

/-- the operator after negation and, when the operands were exchanged, mirroring -/
def finalOp (op : COp) (negate switch : Bool) : COp :=
  let opx := if negate then op.negate else op
  if switch then opx.mirror else opx

/-- bring the value of `ref` into the flags: `LDA v` / `CPX #0` / `CPY #0` -/
def loadRefMn : LV → Mn
  | .var _ => .LDA
  | .x => .CPX
  | .y => .CPY
  | .el _ _ => .LDA

def loadRefOp : LV → Atom
  | .var v => .var v
  | .el t i => .el t i
  | _ => .const 0

def loadRef (ref : LV) : List GLine := [.ins (loadRefMn ref) (some (loadRefOp ref))]

/-- comparison of `ref` with literal 0 by the flags alone: no compare instruction; no load either when
    the flags already describe `ref` (`flags_ok`). Ordered operators are outside the fragment. -/
def zeroTest (g : GState) (ref : LV) (operator : COp) (label : Lbl) : List GLine × GState :=
  let pre : List GLine := if g.flags == some ref then [] else loadRef ref
  let g1 : GState := if g.flags == some ref then g else { g with flags := some ref }
  match operator with
  | .ne => (pre ++ [.br .BNE label], g1)
  | .eq => (pre ++ [.br .BEQ label], g1)
  | _ => ([], g)

def cmpMn : LV → Mn
  | .var _ => .CMP
  | .x => .CPX
  | .y => .CPY
  | .el _ _ => .CMP

/-- `LDA v ; CMP right` / `CPX right` / `CPY right`; a register against an element subscripted by a
    register goes through A (`CPX t,X` does not exist) -/
def cmpPre : LV → Atom → List GLine
  | .var v, right => [.ins .LDA (some (.var v)), .ins .CMP (some right)]
  | .el t i, right => [.ins .LDA (some (.el t i)), .ins .CMP (some right)]
  | .x, .el t .x => [.ins .TXA none, .ins .CMP (some (.el t .x))]
  | .x, .el t .y => [.ins .TXA none, .ins .CMP (some (.el t .y))]
  | .x, right => [.ins .CPX (some right)]
  | .y, .el t .x => [.ins .TYA none, .ins .CMP (some (.el t .x))]
  | .y, .el t .y => [.ins .TYA none, .ins .CMP (some (.el t .y))]
  | .y, right => [.ins .CPY (some right)]

/-- the compare, then the branches; the flags are unknown afterwards -/
def cmpTest (g : GState) (left : LV) (right : Atom) (operator : COp) (label : Lbl) : List GLine × GState :=
  let r := branchInstr { g with flags := none } operator label
  (cmpPre left right ++ r.1, r.2)

/-- `generate_condition_ex`: jump to `label` iff `(l op r) ≠ negate` -/
def genCondEx (g : GState) (l r : RA) (op : COp) (negate : Bool) (label : Lbl) : List GLine × GState :=
  match orient l r with
  | (.of (.const _), _, _) => ([], g)                 -- two constants: outside the fragment
  | (.of (.var v), .of right, switch) =>
    if RA.isZero (.of right) then zeroTest g (.var v) (finalOp op negate switch) label
    else cmpTest g (.var v) right (finalOp op negate switch) label
  | (.of (.el t i), .of right, switch) =>
    if RA.isZero (.of right) then zeroTest g (.el t i) (finalOp op negate switch) label
    else cmpTest g (.el t i) right (finalOp op negate switch) label
  | (.of _, _, _) => ([], g)                          -- cannot happen: a register right operand goes left
  | (.x, .of right, switch) =>
    if RA.isZero (.of right) && g.flags == some .x then zeroTest g .x (finalOp op negate switch) label
    else cmpTest g .x right (finalOp op negate switch) label
  | (.y, .of right, switch) =>
    if RA.isZero (.of right) && g.flags == some .y then zeroTest g .y (finalOp op negate switch) label
    else cmpTest g .y right (finalOp op negate switch) label
  | (_, _, _) => ([], g)                              -- two registers: outside the fragment

/-- the code of a tree whose value goes to the accumulator -/
def treeOps (e : GExpr) : List (Mn × Option Atom) :=
  match genE (none : Option Atom) (fun a => some a) {} e with
  | some (c, .acc, _) => c
  | _ => []

def treeLines (e : GExpr) : List GLine := (treeOps e).map fun p => GLine.ins p.1 p.2

/-- a tree against a memory operand or a constant: the tree's value is in A (left operand of the compare; the
    operator is mirrored when the tree was written on the right); `== 0` / `!= 0` need no compare -/
def cmpETest (g : GState) (op : COp) (e : GExpr) (b : Atom) (eLeft negate : Bool) (label : Lbl) : List GLine × GState :=
  if RA.isZero (.of b) then
    match finalOp op negate (!eLeft) with
    | .ne => (treeLines e ++ [.br .BNE label], { g with flags := none })
    | .eq => (treeLines e ++ [.br .BEQ label], { g with flags := none })
    | _ => ([], g)
  else
    (treeLines e ++ [.ins .CMP (some b)] ++ (branchInstr { g with flags := none } (finalOp op negate (!eLeft)) label).1,
     (branchInstr { g with flags := none } (finalOp op negate (!eLeft)) label).2)

/-- a tree against X or Y: the tree's value goes to the scratch cell, the register is compared with it
    (`STA cctmp ; CPX cctmp`); the register is the left operand of the compare -/
def cmpRTest (g : GState) (op : COp) (e : GExpr) (y eLeft negate : Bool) (label : Lbl) : List GLine × GState :=
  (treeLines e ++ [.ins .STA (some tmp), .ins (if y then .CPY else .CPX) (some tmp)] ++
     (branchInstr { g with flags := none } (finalOp op negate eLeft) label).1,
   (branchInstr { g with flags := none } (finalOp op negate eLeft) label).2)

/-- the two byte passes of a 16-bit (in)equality: low difference to the scratch cell, high difference in A; against
    literal 0 the bytes themselves -/
def wcmpPre (s : String) (w : WA) : List (Mn × Option Atom) :=
  if w == .wconst 0 then [(.LDA, some (.var s)), (.STA, some tmp), (.LDA, some (hiCell s))]
  else [(.LDA, some (.var s)), (.SEC, none), (.SBC, some w.lo), (.STA, some tmp), (.LDA, some (hiCell s)), (.SBC, some w.hi)]

/-- jump on "different": two branches to the label; jump on "equal": over an `.ifstart` label -/
def wcmpTest (g : GState) (ne : Bool) (s : String) (w : WA) (negate : Bool) (label : Lbl) : List GLine × GState :=
  if (ne != negate) then
    ((wcmpPre s w).map (fun p => GLine.ins p.1 p.2) ++ [.br .BNE label, .ins .LDA (some tmp), .br .BNE label], { g with flags := none })
  else
    ((wcmpPre s w).map (fun p => GLine.ins p.1 p.2) ++
        [.br .BNE ⟨.ifstart, g.cIf⟩, .ins .LDA (some tmp), .br .BEQ label, .lab ⟨.ifstart, g.cIf⟩],
     { g with cIf := g.cIf + 1, flags := none })

/-- `if (e)`: the flags describe A after an arithmetic operation, not after a shift (`CMP #0` then) -/
def truthETest (g : GState) (e : GExpr) (negate : Bool) (label : Lbl) : List GLine × GState :=
  (treeLines e ++ (if e.topArithm then [] else [.ins .CMP (some (.const 0))]) ++ [.br (if negate then .BEQ else .BNE) label],
   { g with flags := none })

/-- `generate_condition`: jump to `label` iff `c ≠ negate`; `if (v)` is `v != 0`, `if (!v)` is `v == 0`;
    `&&` / `||` evaluate left to right and stop early: in the direction where the first operand cannot
    decide alone they jump over the second test to an `.ifstart` label placed behind it -/
def genCond (g : GState) : Cond → Bool → Lbl → List GLine × GState
  | .cmp op a b, negate, label => genCondEx g a b op negate label
  | .truth v, negate, label => zeroTest g v (finalOp .ne negate false) label
  | .nottruth v, negate, label => zeroTest g v (finalOp .eq negate false) label
  | .not c, negate, label => genCond g c (!negate) label
  | .cmpE op e b eLeft, negate, label => cmpETest g op e b eLeft negate label
  | .truthE e, negate, label => truthETest g e negate label
  | .cmpR op e y eLeft, negate, label => cmpRTest g op e y eLeft negate label
  | .wcmp ne s w, negate, label => wcmpTest g ne s w negate label
  | .and a b, true, label =>
    let r1 := genCond g a true label
    let r2 := genCond r1.2 b true label
    (r1.1 ++ r2.1, r2.2)
  | .and a b, false, label =>
    let st : Lbl := ⟨.ifstart, g.cIf⟩
    let r1 := genCond { g with cIf := g.cIf + 1 } a true st
    let r2 := genCond r1.2 b false label
    (r1.1 ++ r2.1 ++ [.lab st], { r2.2 with flags := none })
  | .or a b, true, label =>
    let st : Lbl := ⟨.ifstart, g.cIf⟩
    let r1 := genCond { g with cIf := g.cIf + 1 } a false st
    let r2 := genCond r1.2 b true label
    (r1.1 ++ r2.1 ++ [.lab st], { r2.2 with flags := none })
  | .or a b, false, label =>
    let r1 := genCond g a false label
    let r2 := genCond r1.2 b false label
    (r1.1 ++ r2.1, r2.2)

/-- does a single test jump to the target label? (`has_single_exit` of generate_if: only then is the flag
    belief after the condition also true at the target) -/
def Cond.singleExit : Cond → Bool
  | .and _ _ | .or _ _ => false
  | .not c => c.singleExit
  | _ => true

/-! ### statements -/

def flatLines (zp : String → Bool) (s : RStmt) : List GLine :=
  (rtemplate (none : Option Atom) (fun a => some a) zp s).map fun p => .ins p.1 p.2

def genFlat (g : GState) (s : RStmt) : List GLine × GState :=
  (flatLines (zpL g.abs) s, { g with flags := flagsAfter (zpL g.abs) g.flags s })

/-- does the statement contain a `continue` that belongs to the loop it is the body of (not to a loop inside it)?
    (`generate_continue` marks the innermost entry of the `loops` stack; `generate_do_while` emits the
    `.dowhilecondition` label only when its entry was marked) -/
def contHere : SStmt → Bool
  | .cont => true
  | .ifCont _ => true
  | .seq a b => contHere a || contHere b
  | .ifThen _ t => contHere t
  | .ifElse _ t e => contHere t || contHere e
  | _ => false

/-- the innermost loop: (label a `continue` jumps to, label a `break` jumps to) — the top of the generator's
    `loops` stack. It is a parameter of `gen`, not part of the state: a loop passes its own labels to its body -/
abbrev LoopCtx := Option (Lbl × Lbl)

def gen (lp : LoopCtx) (g : GState) : SStmt → List GLine × GState
  | .flat s => genFlat g s
  | .skip => ([], g)
  | .forget => ([], { g with flags := none })
  | .brk => (match lp with | some (_, bl) => ([.jmp bl], g) | none => ([], g))
  | .cont => (match lp with | some (cl, _) => ([.jmp cl], g) | none => ([], g))
  -- `generate_if` with a bare `break` / `continue` as body: the counter is taken, the label is not used;
  -- the condition branches to the loop's label itself
  | .ifBrk c => (match lp with
      | some (_, bl) => genCond { g with cIf := g.cIf + 1 } c false bl
      | none => ([], { g with cIf := g.cIf + 1 }))
  | .ifCont c => (match lp with
      | some (cl, _) => genCond { g with cIf := g.cIf + 1 } c false cl
      | none => ([], { g with cIf := g.cIf + 1 }))
  | .seq a b =>
    let (ca, g1) := gen lp g a
    let (cb, g2) := gen lp g1 b
    (ca ++ cb, g2)
  | .ifThen c t =>
    let g0 := { g with cIf := g.cIf + 1 }
    let ifend : Lbl := ⟨.ifend, g0.cIf⟩
    let (cc, g1) := genCond g0 c true ifend
    let (ct, g2) := gen lp g1 t
    (cc ++ ct ++ [.lab ifend], { g2 with flags := none })
  | .ifElse c t e =>
    let g0 := { g with cIf := g.cIf + 1 }
    let ifend : Lbl := ⟨.ifend, g0.cIf⟩
    let els : Lbl := ⟨.else_, g0.cIf⟩
    let (cc, g1) := genCond g0 c true els
    let (ct, g2) := gen lp g1 t
    let (ce, g3) := gen lp { g2 with flags := if c.singleExit then g1.flags else none } e
    (cc ++ ct ++ [.jmp ifend, .lab els] ++ ce ++ [.lab ifend], { g3 with flags := none })
  | .while c b =>
    let g0 := { g with cWhile := g.cWhile + 1, flags := none }
    let wl : Lbl := ⟨.while_, g0.cWhile⟩
    let we : Lbl := ⟨.whileend, g0.cWhile⟩
    let (cc, g1) := genCond g0 c true we
    let (cb, g2) := gen (some (wl, we)) g1 b
    ([.lab wl] ++ cc ++ cb ++ [.jmp wl, .lab we], { g2 with flags := none })
  | .doWhile b c =>
    let g0 := { g with cWhile := g.cWhile + 1, flags := none }
    let dl : Lbl := ⟨.dowhile, g0.cWhile⟩
    let dc : Lbl := ⟨.dowhilecondition, g0.cWhile⟩
    let de : Lbl := ⟨.dowhileend, g0.cWhile⟩
    let (cb, g1) := gen (some (dc, de)) g0 b
    -- the label a `continue` jumps to exists only when the body has one (and forgets the flags)
    let mid : List GLine := if contHere b then [.lab dc] else []
    let (cc, g2) := genCond (if contHere b then { g1 with flags := none } else g1) c false dl
    ([.lab dl] ++ cb ++ mid ++ cc ++ [.lab de], { g2 with flags := none })
  | .for init c upd b =>
    let g0 := { g with cFor := g.cFor + 1 }
    let fl : Lbl := ⟨.for_, g0.cFor⟩
    let fu : Lbl := ⟨.forupdate, g0.cFor⟩
    let fe : Lbl := ⟨.forend, g0.cFor⟩
    let (ci, g1) := genFlat g0 init
    let (c1, g2) := genCond g1 c true fe
    let (cb, g3) := gen (some (fu, fe)) { g2 with flags := none } b
    let (cu, g4) := genFlat { g3 with flags := none } upd
    let (c2, g5) := genCond g4 c false fl
    (ci ++ c1 ++ [.lab fl] ++ cb ++ [.lab fu] ++ cu ++ c2 ++ [.lab fe], { g5 with flags := none })

/-! ### the declared fragment -/

def CondOK : Cond → Bool
  | .cmp op a b => !(a.isConst && b.isConst) && !(a.isReg && b.isReg) && !(op.ordered && (RA.isZero a || RA.isZero b))
      && !(RA.isRegEl a && b.isReg)   -- `t[X] == X` compares X with itself (known finding): outside the fragment
  | .and a b => CondOK a && CondOK b
  | .or a b => CondOK a && CondOK b
  | .not c => CondOK c
  | .cmpE op e b _ => e.ok && !(op.ordered && RA.isZero (.of b))
  | .truthE e => e.ok
  | .cmpR _ e _ _ => e.ok && e.tmpFree
  | _ => true

def SInFragment : SStmt → Bool
  | .flat s => RInFragment s
  | .skip => true
  | .forget => true
  | .seq a b => SInFragment a && SInFragment b
  | .ifThen c t => CondOK c && SInFragment t
  | .ifElse c t e => CondOK c && SInFragment t && SInFragment e
  | .while c b => CondOK c && SInFragment b
  | .doWhile b c => CondOK c && SInFragment b
  | .for i c u b => RInFragment i && CondOK c && RInFragment u && SInFragment b
  | .brk | .cont => true
  | .ifBrk c | .ifCont c => CondOK c

/-- `break` and `continue` occur inside loops only (`inLoop` = we are inside one) -/
def Scoped (inLoop : Bool) : SStmt → Bool
  | .brk | .cont | .ifBrk _ | .ifCont _ => inLoop
  | .seq a b => Scoped inLoop a && Scoped inLoop b
  | .ifThen _ t => Scoped inLoop t
  | .ifElse _ t e => Scoped inLoop t && Scoped inLoop e
  | .while _ b | .doWhile b _ | .for _ _ _ b => Scoped true b
  | _ => true

/-! ### rendering for the tie -/

def GLine.text : GLine → String
  | .ins mn (some a) => mn.name ++ ":" ++ hexStr (GenFlat.text a)
  | .ins mn none => mn.name ++ ":" ++ hexStr ""
  | .br mn l => mn.name ++ ":" ++ hexStr l.text
  | .jmp l => "JMP:" ++ hexStr l.text
  | .lab l => "L:" ++ hexStr l.text

/-! ### what the source prescribes -/

def COp.eval : COp → Byte → Byte → Bool
  | .eq, a, b => a == b
  | .ne, a, b => a != b
  | .lt, a, b => decide (a.toNat < b.toNat)
  | .ge, a, b => decide (b.toNat ≤ a.toNat)
  | .gt, a, b => decide (b.toNat < a.toNat)
  | .le, a, b => decide (a.toNat ≤ b.toNat)

/-- evaluating a condition: its truth value and the state it leaves behind. Conditions on atoms and on quiet trees
    leave the state as it was; stage 13 adds conditions whose code uses the scratch cell. `&&` / `||` evaluate their
    second operand in the state the first one left, and only when needed -/
def condRun (L : Layout) (m : SrcSt) : Cond → Bool × SrcSt
  | .cmp op a b => (op.eval (rval L m a) (rval L m b), m)
  | .truth v => (rval L m v.ra != 0, m)
  | .nottruth v => (rval L m v.ra == 0, m)
  | .and a b => if (condRun L m a).1 then condRun L (condRun L m a).2 b else (false, (condRun L m a).2)
  | .or a b => if (condRun L m a).1 then (true, (condRun L m a).2) else condRun L (condRun L m a).2 b
  | .not c => (!(condRun L m c).1, (condRun L m c).2)
  | .cmpE op e b eLeft =>
    let r := treeRun L m e
    (if eLeft then op.eval r.1 (val L r.2.mem r.2.x r.2.y b) else op.eval (val L r.2.mem r.2.x r.2.y b) r.1, r.2)
  | .truthE e => ((treeRun L m e).1 != 0, (treeRun L m e).2)
  | .cmpR op e y eLeft =>
    let r := treeRun L m e
    let reg := if y then r.2.y else r.2.x
    (if eLeft then op.eval r.1 reg else op.eval reg r.1, setTmp L r.2 r.1)
  | .wcmp ne s w => (if ne then (wcmpRun L m s w).1 else !(wcmpRun L m s w).1, (wcmpRun L m s w).2)

def evalCond (L : Layout) (m : SrcSt) (c : Cond) : Bool := (condRun L m c).1
/-- the state a condition leaves behind -/
def condEff (L : Layout) (m : SrcSt) (c : Cond) : SrcSt := (condRun L m c).2

section condLemmas
variable (L : Layout) (m : SrcSt)
theorem evalCond_cmp (op : COp) (a b : RA) : evalCond L m (.cmp op a b) = op.eval (rval L m a) (rval L m b) := rfl
theorem evalCond_truth (v : LV) : evalCond L m (.truth v) = (rval L m v.ra != 0) := rfl
theorem evalCond_nottruth (v : LV) : evalCond L m (.nottruth v) = (rval L m v.ra == 0) := rfl
theorem evalCond_cmpE (op : COp) (e : GExpr) (b : Atom) (eLeft : Bool) : evalCond L m (.cmpE op e b eLeft) =
    (if eLeft then op.eval (treeRun L m e).1 (val L (treeRun L m e).2.mem (treeRun L m e).2.x (treeRun L m e).2.y b)
     else op.eval (val L (treeRun L m e).2.mem (treeRun L m e).2.x (treeRun L m e).2.y b) (treeRun L m e).1) := rfl
theorem evalCond_truthE (e : GExpr) : evalCond L m (.truthE e) = ((treeRun L m e).1 != 0) := rfl
theorem evalCond_cmpR (op : COp) (e : GExpr) (y eLeft : Bool) : evalCond L m (.cmpR op e y eLeft) =
    (if eLeft then op.eval (treeRun L m e).1 (if y then (treeRun L m e).2.y else (treeRun L m e).2.x)
     else op.eval (if y then (treeRun L m e).2.y else (treeRun L m e).2.x) (treeRun L m e).1) := rfl
@[simp] theorem condEff_cmpR (op : COp) (e : GExpr) (y eLeft : Bool) : condEff L m (.cmpR op e y eLeft) =
    setTmp L (treeRun L m e).2 (treeRun L m e).1 := rfl
theorem evalCond_wcmp (ne : Bool) (s : String) (w : WA) : evalCond L m (.wcmp ne s w) =
    (if ne then (wcmpRun L m s w).1 else !(wcmpRun L m s w).1) := rfl
@[simp] theorem condEff_wcmp (ne : Bool) (s : String) (w : WA) : condEff L m (.wcmp ne s w) = (wcmpRun L m s w).2 := rfl
theorem evalCond_not (c : Cond) : evalCond L m (.not c) = !evalCond L m c := rfl
theorem evalCond_and (a b : Cond) : evalCond L m (.and a b) = (evalCond L m a && evalCond L (condEff L m a) b) := by
  simp only [evalCond, condEff, condRun]; split <;> simp_all
theorem evalCond_or (a b : Cond) : evalCond L m (.or a b) = (evalCond L m a || evalCond L (condEff L m a) b) := by
  simp only [evalCond, condEff, condRun]; split <;> simp_all
@[simp] theorem condEff_cmp (op : COp) (a b : RA) : condEff L m (.cmp op a b) = m := rfl
@[simp] theorem condEff_truth (v : LV) : condEff L m (.truth v) = m := rfl
@[simp] theorem condEff_nottruth (v : LV) : condEff L m (.nottruth v) = m := rfl
@[simp] theorem condEff_cmpE (op : COp) (e : GExpr) (b : Atom) (eLeft : Bool) : condEff L m (.cmpE op e b eLeft) = (treeRun L m e).2 := rfl
@[simp] theorem condEff_truthE (e : GExpr) : condEff L m (.truthE e) = (treeRun L m e).2 := rfl
@[simp] theorem condEff_not (c : Cond) : condEff L m (.not c) = condEff L m c := rfl
theorem condEff_and (a b : Cond) : condEff L m (.and a b) =
    (if evalCond L m a then condEff L (condEff L m a) b else condEff L m a) := by
  simp only [evalCond, condEff, condRun]; split <;> simp_all
theorem condEff_or (a b : Cond) : condEff L m (.or a b) =
    (if evalCond L m a then condEff L m a else condEff L (condEff L m a) b) := by
  simp only [evalCond, condEff, condRun]; split <;> simp_all
end condLemmas

/-- how a statement ends: normally, by `break`, by `continue` -/
inductive Exit where | norm | brk | cont
  deriving Repr, DecidableEq, Inhabited

abbrev Out := Exit × SrcSt

mutual
/-- big-step meaning of a statement; `none` = not finished within the fuel -/
def sem (L : Layout) : Nat → SrcSt → SStmt → Option Out
  | 0, _, _ => none
  | _ + 1, m, .flat s => some (.norm, rspec L m s)
  | _ + 1, m, .skip => some (.norm, m)
  | _ + 1, m, .forget => some (.norm, m)
  | _ + 1, m, .brk => some (.brk, m)
  | _ + 1, m, .cont => some (.cont, m)
  | _ + 1, m, .ifBrk c => some (if evalCond L m c then .brk else .norm, condEff L m c)
  | _ + 1, m, .ifCont c => some (if evalCond L m c then .cont else .norm, condEff L m c)
  | f + 1, m, .seq a b =>
    (match sem L f m a with
     | some (.norm, m1) => sem L f m1 b
     | r => r)
  | f + 1, m, .ifThen c t => if evalCond L m c then sem L f (condEff L m c) t else some (.norm, condEff L m c)
  | f + 1, m, .ifElse c t e => if evalCond L m c then sem L f (condEff L m c) t else sem L f (condEff L m c) e
  | f + 1, m, .while c b =>
    if evalCond L m c then
      (match sem L f (condEff L m c) b with
       | none => none
       | some (.brk, m1) => some (.norm, m1)
       | some (_, m1) => sem L f m1 (.while c b))
    else some (.norm, condEff L m c)
  | f + 1, m, .doWhile b c =>
    (match sem L f m b with
     | none => none
     | some (.brk, m1) => some (.norm, m1)
     | some (_, m1) => if evalCond L m1 c then sem L f (condEff L m1 c) (.doWhile b c) else some (.norm, condEff L m1 c))
  | f + 1, m, .for i c u b => semFor L c u b f (rspec L m i)

/-- the loop of a `for` behind its initialisation: a `continue` in the body still runs the update -/
def semFor (L : Layout) (c : Cond) (u : RStmt) (b : SStmt) : Nat → SrcSt → Option Out
  | 0, _ => none
  | f + 1, m =>
    if evalCond L m c then
      (match sem L f (condEff L m c) b with
       | none => none
       | some (.brk, m1) => some (.norm, m1)
       | some (_, m1) => semFor L c u b f (rspec L m1 u))
    else some (.norm, condEff L m c)
end

/-! ### the machine on emitted lines -/

def findLbl : List GLine → Lbl → Option Nat
  | [], _ => none
  | .lab l' :: r, l => if l' = l then some 0 else (findLbl r l).map (· + 1)
  | _ :: r, l => (findLbl r l).map (· + 1)

def opdOf (L : Layout) : Option Atom → Opd
  | none => .none
  | some a => opd L a

/-- one step at `pc`; `none` = stuck (fell off the end, illegal operand, undefined label) -/
def stepG (L : Layout) (code : List GLine) (pc : Nat) (s : Cpu) : Option (Nat × Cpu) :=
  match code[pc]? with
  | none => none
  | some (.lab _) => some (pc + 1, s)
  | some (.ins mn a) => (s.exec mn (opdOf L a)).map fun s' => (pc + 1, s')
  | some (.br mn l) =>
    (match Cpu.taken s.f mn with
     | some true => (findLbl code l).map fun t => (t, s)
     | some false => some (pc + 1, s)
     | none => none)
  | some (.jmp l) => (findLbl code l).map fun t => (t, s)

/-- run with fuel until `pc = stop` -/
def runG (L : Layout) (code : List GLine) (stop : Nat) : Nat → Nat → Cpu → Option Cpu
  | 0, pc, s => if pc = stop then some s else none
  | f + 1, pc, s =>
    if pc = stop then some s else
    match stepG L code pc s with
    | some (pc', s') => runG L code stop f pc' s'
    | none => none

end CV.GenStruct
