/-
  CV.GenFlat — port of the code generator for a declared fragment of the language (stage 1):
  straight-line statements over global `unsigned char` variables in zero page and constants
      v = a      v = a ∘ b      v ∘= a      v++      v--         (∘ ∈ + − & | ^ ; a, b atoms)
  The templates are those of generate_assign / generate_arithm / generate_plusplus at -O0
  (DESIGN.md appendix A.3); the port is compared text-for-text with the real -O0 output by the C01
  check. Each instruction is produced twice from the same template: as text (for the tie) and as a
  resolved operand (for the semantics), through `Layout`.
-/
import CV.Mos
namespace CV.GenFlat
open CV

/-- the subscript of an array element: a literal, or the register variable X or Y (stage 4) -/
inductive Ix where
  | k (n : Nat)
  | x
  | y
  deriving Repr, DecidableEq, Inhabited

inductive Atom where
  | const (n : Byte)
  | var (x : String)
  | el (t : String) (i : Ix)          -- element of a global `unsigned char` array
  deriving Repr, DecidableEq, Inhabited

inductive BOp where | add | sub | band | bor | bxor
  deriving Repr, DecidableEq, Inhabited

inductive FStmt where
  | asg (v : String) (a : Atom)
  | bin (v : String) (op : BOp) (a b : Atom)
  | opasg (v : String) (op : BOp) (a : Atom)
  | inc (v : String)
  | dec (v : String)
  deriving Repr, DecidableEq, Inhabited

/-- the variable a statement assigns -/
def target : FStmt → String
  | .asg v _ | .bin v _ _ _ | .opasg v _ _ | .inc v | .dec v => v

def Atom.isConst : Atom → Bool | .const _ => true | _ => false

/-- the declared fragment: a binary operation has at least one variable operand (two constants
    are folded by the generator, which is C10's subject) -/
def InFragment : FStmt → Bool
  | .bin _ _ a b => !(a.isConst && b.isConst)
  | _ => true

abbrev Layout := String → Word

/-- address of an element. Indexed addressing is modelled without the zero-page wrap-around of `zp,X`:
    for a subscript inside the array (C's rule) and an array that does not straddle $FF/$100 the two agree
    (`CV.C01.indexed_zero_page_no_wrap`) -/
def elAddr (L : Layout) (x y : Byte) (t : String) : Ix → Word
  | .k n => L t + BitVec.ofNat 16 n
  | .x => L t + x.zeroExtend 16
  | .y => L t + y.zeroExtend 16

def opd (L : Layout) : Atom → Opd
  | .const n => .imm n
  | .var x => .mem (L x)
  | .el t (.k n) => .mem (L t + BitVec.ofNat 16 n)
  | .el t .x => .memX (L t) false
  | .el t .y => .memY (L t) false

def text : Atom → String
  | .const n => "#" ++ toString n.toNat
  | .var x => x
  | .el t (.k n) => if n == 0 then t else t ++ "+" ++ toString n
  | .el t .x => t ++ ",X"
  | .el t .y => t ++ ",Y"

def BOp.commutes : BOp → Bool | .sub => false | _ => true

/-- operand order after the generator's swap: a constant first operand of a commutative operation
    goes second -/
def ordered (op : BOp) (a b : Atom) : Atom × Atom :=
  if op.commutes && a.isConst && !b.isConst then (b, a) else (a, b)

/-- a constant right operand that leaves the accumulator unchanged: the generator emits no
    operation for it (`+ 0`, `- 0`, `| 0`, `^ 0`, `& 255`) — only the carry set-up stays -/
def isIdentity (op : BOp) : Atom → Bool
  | .const n => (match op with | .band => n == 255 | _ => n == 0)
  | _ => false

def carryOf : BOp → List Mn
  | .add => [.CLC] | .sub => [.SEC] | _ => []

def mainOf : BOp → List Mn
  | .add => [.ADC] | .sub => [.SBC] | .band => [.AND] | .bor => [.ORA] | .bxor => [.EOR]

/-- instruction template of `A := A ∘ operand` -/
def opInstrs (op : BOp) (y : Atom) : List Mn :=
  if isIdentity op y then carryOf op else carryOf op ++ mainOf op

/-- one template, abstract in how an atom is rendered -/
def template {α : Type} (none : α) (r : Atom → α) : FStmt → List (Mn × α)
  | .asg v a => [(.LDA, r a), (.STA, r (.var v))]
  | .bin v op a b =>
    let (x, y) := ordered op a b
    [(.LDA, r x)] ++ (opInstrs op y).map (fun m => (m, if m == .CLC || m == .SEC then none else r y)) ++ [(.STA, r (.var v))]
  | .opasg v op a =>
    [(.LDA, r (.var v))] ++ (opInstrs op a).map (fun m => (m, if m == .CLC || m == .SEC then none else r a)) ++ [(.STA, r (.var v))]
  | .inc v => [(.INC, r (.var v))]
  | .dec v => [(.DEC, r (.var v))]

def genOps (L : Layout) (s : FStmt) : List (Mn × Opd) := template Opd.none (opd L) s
def genText (s : FStmt) : List (Mn × String) := template "" text s

/-- execute a straight sequence of data instructions -/
def execSeq (s : Cpu) : List (Mn × Opd) → Option Cpu
  | [] => some s
  | (mn, o) :: r => (s.exec mn o).bind fun s' => execSeq s' r

/-! ### what the source prescribes (8-bit wrap-around), directly on memory -/

def val (L : Layout) (m : Mem) (x y : Byte) : Atom → Byte
  | .const n => n
  | .var v => m.read (L v)
  | .el t i => m.read (elAddr L x y t i)

def BOp.apply : BOp → Byte → Byte → Byte
  | .add, a, b => a + b
  | .sub, a, b => a - b
  | .band, a, b => a &&& b
  | .bor, a, b => a ||| b
  | .bxor, a, b => a ^^^ b

def spec (L : Layout) (m : Mem) (x y : Byte) : FStmt → Mem
  | .asg v a => m.write (L v) (val L m x y a)
  | .bin v op a b => m.write (L v) (op.apply (val L m x y a) (val L m x y b))
  | .opasg v op a => m.write (L v) (op.apply (m.read (L v)) (val L m x y a))
  | .inc v => m.write (L v) (m.read (L v) + 1)
  | .dec v => m.write (L v) (m.read (L v) - 1)

def specBlock (L : Layout) (x y : Byte) : Mem → List FStmt → Mem
  | m, [] => m
  | m, s :: r => specBlock L x y (spec L m x y s) r

end CV.GenFlat
