/-
  CV.Opt — port of `AssemblyCode::optimize` (src/assemble.rs): the one-pass peephole optimiser.

  The Rust code walks the vector with `itertools::multipeek`; `first`/`second` are mutable
  references into it. Here they are indices, `it` is the position of the iterator (index of the
  next element `next()` yields). A peek sequence always starts right after a `next()` (see the
  note at `lookahead`), so the peek cursor is `it`, `it+1`, `it+2`.
-/
import CV.Asm
namespace CV

inductive OFlags where | unknown | a | x | y
  deriving DecidableEq, Repr, Inhabited

structure OptSt where
  code : Array Line
  it : Nat := 0
  first : Nat := 0
  second : Option Nat := none
  acc : Option String := none
  xr : Option String := none
  yr : Option String := none
  flags : OFlags := .unknown
  removed : Nat := 0
  deriving Inhabited

def instrAt (code : Array Line) (i : Nat) : Option Instr :=
  match code[i]? with
  | some (.instr ins) => some ins
  | _ => none

/-- `loop { match x { None => return, Some(Instruction) => break, _ => x = iter.next() } }`
    starting with `x = iter.next()` taken at position `it`: index of the first instruction at or
    after `it`, and the iterator position after consuming it. -/
def seekInstr (code : Array Line) (it : Nat) : Option (Nat × Nat) :=
  let rec go (fuel i : Nat) : Option (Nat × Nat) :=
    match fuel with
    | 0 => none
    | f + 1 =>
      if i < code.size then
        match code[i]? with
        | some (.instr _) => some (i, i + 1)
        | _ => go f (i + 1)
      else none
  go (code.size + 1 - it) it

/-- `iter.next()` -/
def nextIdx (code : Array Line) (it : Nat) : Option Nat × Nat :=
  if it < code.size then (some it, it + 1) else (none, it)

def seedRegs (ins : Instr) : Option String × Option String × Option String :=
  match ins.mn with
  | .LDA => (some ins.opd, none, none)
  | .LDX => (none, some ins.opd, none)
  | .LDY => (none, none, some ins.opd)
  | _ => (none, none, none)

def seedFlags (ins : Instr) (dflt : OFlags) : OFlags :=
  match ins.mn with
  | .LDA => .a | .LDX => .x | .LDY => .y | _ => dflt

structure PairDecision where
  both : Bool := false
  first : Bool := false
  second : Bool := false
  swap : Bool := false
  deriving Repr, DecidableEq

def isImm (s : String) : Bool := s.startsWith "#"

/-- compare folding: register known to hold immediate `r`, `i1 = CMP/CPX/CPY #imm`, `i2 = BNE/BEQ` -/
def foldCmp (r : Option String) (cmpMn : Mn) (i1 i2 : Instr) : Bool :=
  match r with
  | some r =>
    if isImm r && i1.mn == cmpMn && isImm i1.opd then
      match i2.mn with
      | .BNE => r == i1.opd && !i2.prot
      | .BEQ => r != i1.opd && !i2.prot
      | _ => false
    else false
  | none => false

/-- the pair rules (all tests run, later ones add flags) -/
def pairRules (i1 i2 : Instr) (acc xr yr : Option String) (fl : OFlags := .a) : PairDecision :=
  let both := (i1.mn == .PLA && i2.mn == .PHA && !i1.prot && !i2.prot)
    || foldCmp acc .CMP i1 i2 || foldCmp xr .CPX i1 i2 || foldCmp yr .CPY i1 i2
  let second :=
    (i1.mn == .JMP && i2.mn == .JMP && !i1.prot && !i2.prot)
    || (i1.mn == .STA && i2.mn == .LDA && i1.opd == i2.opd && fl == .a && !i2.prot)
    || (i1.mn == .LDA && i2.mn == .STA && i1.opd == i2.opd && !i2.prot)
    || (i1.mn == .LDY && i2.mn == .STY && i1.opd == i2.opd && !i2.prot)
    || (i1.mn == .LDX && i2.mn == .STX && i1.opd == i2.opd && !i2.prot)
    || (i1.mn == .TAX && i2.mn == .TXA && !i2.prot)
    || (i1.mn == .TXA && i2.mn == .TAX && !i2.prot)
    || (i1.mn == .TAY && i2.mn == .TYA && !i2.prot)
    || (i1.mn == .TYA && i2.mn == .TAY && !i2.prot)
    || (i2.mn == .ORA && i2.opd == "#0" && !i2.prot)
  let first :=
    (i1.mn == .LDA && i2.mn == .LDA && !i1.prot)
    || (i1.mn == .LDY && i2.mn == .LDY && !i1.prot)
    || (i1.mn == .LDX && i2.mn == .LDX && !i1.prot)
  let swap := i1.mn == .LDA && (i2.mn == .SEC || i2.mn == .CLC)
  { both := both, first := first, second := second, swap := swap }

def isLoadMn (m : Mn) : Bool := m == .LDA || m == .LDX || m == .LDY

/-- the look-ahead of the redundant-`LDA` rule when the flags do not describe A: the line after
    `second` is a `CMP`, or a `STA` followed (possibly after one `Dummy`) by a load.
    (`iter.peek()` is called only here, always right after a `next()`, so it sees `it`, `it+1`,
    `it+2`.) -/
def lookahead (code : Array Line) (it : Nat) : Bool :=
  match code[it]? with
  | some (.instr i1) =>
    if i1.mn == .CMP then true
    else if i1.mn == .STA then
      match code[it + 1]? with
      | some (.instr i2) => isLoadMn i2.mn
      | some .dummy =>
        (match code[it + 2]? with
         | some (.instr i3) => isLoadMn i3.mn
         | _ => false)
      | _ => false
    else false
  | _ => false

def clearIf (r : Option String) (p : String → Bool) : Option String :=
  match r with
  | some v => if p v then none else some v
  | none => none

/-- knowledge update from `second` (runs when neither remove_second nor remove_both is set).
    Returns (acc, x, y, flags, remove_second). -/
def updateKnowledge (code : Array Line) (it : Nat) (ins : Instr)
    (acc xr yr : Option String) (flags : OFlags) :
    Option String × Option String × Option String × OFlags × Bool :=
  let endsX := fun (v : String) => v.endsWith ",X"
  let endsY := fun (v : String) => v.endsWith ",Y"
  match ins.mn with
  | .LDA =>
    let rm := match acc with
      | some v => if v == ins.opd then (if flags == .a then !ins.prot else (if lookahead code it then !ins.prot else false)) else false
      | none => false
    (some ins.opd, xr, yr, .a, rm)
  | .LDX =>
    let acc := clearIf acc endsX
    let yr := clearIf yr endsX
    let rm := match xr with | some v => if v == ins.opd && flags == .x then !ins.prot else false | none => false
    (acc, some ins.opd, yr, .x, rm)
  | .LDY =>
    let acc := clearIf acc endsY
    let xr := clearIf xr endsY
    let rm := match yr with | some v => if v == ins.opd && flags == .y then !ins.prot else false | none => false
    (acc, xr, some ins.opd, .y, rm)
  | .DEC | .INC =>
    (clearIf acc (fun v => !isImm v), clearIf xr (fun v => !isImm v), clearIf yr (fun v => !isImm v), .unknown, false)
  | .INX | .DEX => (clearIf acc endsX, none, clearIf yr endsX, .x, false)
  | .INY | .DEY => (clearIf acc endsY, clearIf xr endsY, none, .y, false)
  | .TAX =>
    let accX := match acc with | some v => endsX v | none => false
    (if accX then none else acc, if accX then none else acc, clearIf yr endsX, .x, false)
  | .TAY =>
    let accY := match acc with | some v => endsY v | none => false
    (if accY then none else acc, clearIf xr endsY, if accY then none else acc, .y, false)
  | .TXA => (xr, xr, yr, .a, false)
  | .TYA => (yr, xr, yr, .a, false)
  | .STA | .STX | .STY =>
    (clearIf acc (fun v => !isImm v), clearIf xr (fun v => !isImm v), clearIf yr (fun v => !isImm v), flags, false)
  | .ADC | .SBC | .EOR | .AND | .ORA | .PLA => (none, xr, yr, .a, false)
  | .LSR | .ASL | .ROL | .ROR => (none, xr, yr, if ins.opd.isEmpty then .a else .unknown, false)
  | .PHA => (none, xr, yr, flags, false)
  | .PLP => (acc, xr, yr, .unknown, false)
  | .JSR | .JMP => (none, none, none, flags, false)
  | .CPX | .CPY | .CMP => (acc, xr, yr, .unknown, false)
  | _ => (acc, xr, yr, flags, false)

inductive Outcome where
  | done (s : OptSt)
  | cont (s : OptSt)
  deriving Inhabited

/-- advance `second` until it is an instruction; at a label restart. `none` = iterator exhausted. -/
def settleSecond (s : OptSt) : Nat → Option OptSt
  | 0 => none
  | fuel + 1 =>
    match s.second with
    | none => none
    | some j =>
      match s.code[j]? with
      | some (.instr _) => some s
      | some (.label _) | some (.inline _ _) =>
        -- restart after a label; inline assembly is a barrier too
        (match seekInstr s.code s.it with
         | none => none
         | some (f, it1) =>
           let (sec, it2) := nextIdx s.code it1
           match instrAt s.code f with
           | some ins =>
             let (a, x, y) := seedRegs ins
             settleSecond { s with first := f, second := sec, it := it2, acc := a, xr := x, yr := y,
                                   flags := seedFlags ins .unknown } fuel
           | none => none)
      | _ =>
        let (sec, it1) := nextIdx s.code s.it
        settleSecond { s with second := sec, it := it1 } fuel

/-- stage 1: remove a `JMP` to the label that immediately follows. `error` = the iterator ran out
    (the function returns), with the final state. -/
def jmpStage (s : OptSt) : Except OptSt OptSt :=
  match instrAt s.code s.first, s.second with
  | some i1, some j =>
    (match s.code[j]? with
     | some (.label l) =>
       if i1.mn == .JMP && i1.opd == l && !i1.prot then
         let code := s.code.setIfInBounds s.first .dummy
         -- first = second (the label) ; seek an instruction ; second = next()
         (match seekInstr code s.it with
          | none => .error { s with code := code, removed := s.removed + 1 }
          | some (f, it1) =>
            let n := nextIdx code it1
            .ok { s with code := code, removed := s.removed + 1, first := f, second := n.1, it := n.2 })
       else .ok s
     | _ => .ok s)
  | _, _ => .ok s

/-- stage 3a: knowledge update; returns the state with new knowledge and the final `remove_second` -/
def knowStage (s : OptSt) (i2 : Instr) (d : PairDecision) : OptSt × Bool :=
  if !d.second && !d.both then
    let k := updateKnowledge s.code s.it i2 s.acc s.xr s.yr s.flags
    ({ s with acc := k.1, xr := k.2.1, yr := k.2.2.1, flags := k.2.2.2.1 }, k.2.2.2.2)
  else (s, d.second)

/-- stage 3b: apply the decision (`swap > both > second > first > advance`) -/
def applyStage (s : OptSt) (i1 i2 : Instr) (j : Nat) (d : PairDecision) (rsecond : Bool) : Outcome :=
  if d.swap then
    .cont { s with code := (s.code.setIfInBounds s.first (.instr i2)).setIfInBounds j (.instr i1), acc := none }
  else if d.both then
    let code := (s.code.setIfInBounds s.first .dummy).setIfInBounds j .dummy
    match seekInstr code s.it with
    | none => .done { s with code := code, removed := s.removed + 2 }
    | some (f, it1) =>
      let n := nextIdx code it1
      match instrAt code f with
      | some ins =>
        let r := seedRegs ins
        .cont { s with code := code, removed := s.removed + 2, first := f, second := n.1, it := n.2,
                       acc := r.1, xr := r.2.1, yr := r.2.2 }
      | none => .done { s with code := code, removed := s.removed + 2 }
  else if rsecond then
    let code := s.code.setIfInBounds j .dummy
    let n := nextIdx code s.it
    .cont { s with code := code, removed := s.removed + 1, second := n.1, it := n.2 }
  else if d.first then
    let code := s.code.setIfInBounds s.first .dummy
    let n := nextIdx code s.it
    .cont { s with code := code, removed := s.removed + 1, first := j, second := n.1, it := n.2 }
  else
    let n := nextIdx s.code s.it
    .cont { s with first := j, second := n.1, it := n.2 }

/-- one iteration of the main loop -/
def optStep (s : OptSt) : Outcome :=
  match jmpStage s with
  | .error s' => .done s'
  | .ok s =>
  match settleSecond s (s.code.size + 2) with
  | none => .done s
  | some s =>
  match s.second with
  | none => .done s
  | some j =>
  if s.first = j then .done s else   -- impossible: `first` and `second` are distinct `&mut` borrows
  match instrAt s.code s.first, instrAt s.code j with
  | some i1, some i2 =>
    let d := pairRules i1 i2 s.acc s.xr s.yr s.flags
    let k := knowStage s i2 d
    applyStage k.1 i1 i2 j d k.2
  | _, _ => .done s   -- unreachable!() in the Rust code

def optLoop : Nat → OptSt → OptSt
  | 0, s => s
  | fuel + 1, s =>
    match optStep s with
    | .done s' => s'
    | .cont s' => optLoop fuel s'

/-- `AssemblyCode::optimize`: returns the new vector and the number of removed instructions -/
def optimize (c : Code) : Code × Nat :=
  let code := c.toArray
  match seekInstr code 0 with
  | none => (c, 0)
  | some (f, it1) =>
    let (sec, it2) := nextIdx code it1
    match instrAt code f with
    | none => (c, 0)
    | some ins =>
      let (a, x, y) := seedRegs ins
      let s0 : OptSt := { code := code, it := it2, first := f, second := sec, acc := a, xr := x, yr := y,
                          flags := seedFlags ins .unknown }
      let s := optLoop (3 * code.size + 8) s0
      (s.code.toList, s.removed)

end CV
