/-
  CV.Cpp — port of the preprocessor `cpp::process` (src/cpp.rs): splices, comment removal,
  string-literal extraction, the three-state conditional machine, the `#if` evaluator,
  object-like and function-like macros with the original's replacement loop, `#include`.

  Text is `List Char` (ASCII inputs). Regex behaviour used by the original and reproduced here:
  `\bNAME\b` (ASCII word boundary), `replace_all` = leftmost non-overlapping matches, the
  generated argument regex of function-like macros (arguments = runs of characters other than
  `,` `(` `)` or parenthesised groups nested at most 4 deep), `$name` references in templates.
-/
namespace CV.Cpp

abbrev Str := List Char

def isWord (c : Char) : Bool := c.isAlphanum || c == '_'

/-! ### small string utilities (on `List Char`) -/

def startsWith (s p : Str) : Bool := p.isPrefixOf s
def endsWith (s p : Str) : Bool := p.isSuffixOf s

/-- first occurrence of `pat` in `s`: (before, after) -/
def splitOnce (pat : Str) : Str → Option (Str × Str)
  | [] => if pat.isEmpty then some ([], []) else none
  | c :: cs =>
    if pat.isPrefixOf (c :: cs) then some ([], (c :: cs).drop pat.length)
    else match splitOnce pat cs with
      | some (a, b) => some (c :: a, b)
      | none => none

def isSpace (c : Char) : Bool := c == ' ' || c == '\t' || c == '\n' || c == '\r' || c == '\x0b' || c == '\x0c'
def trimStart (s : Str) : Str := s.dropWhile isSpace
def trimEnd (s : Str) : Str := (s.reverse.dropWhile isSpace).reverse
def trim (s : Str) : Str := trimEnd (trimStart s)

/-! ### macros -/

structure Macro where
  name : Str
  params : Option (List Str)     -- `none`: object-like
  body : Str                     -- replacement text / template with `$param` references
  deriving Repr, Inhabited, DecidableEq

/-- does `name` occur at the head of `s` as a whole word, given the previous character? -/
def wordAt (name : Str) (prev : Option Char) (s : Str) : Bool :=
  !name.isEmpty && name.isPrefixOf s &&
  (match prev with | some p => !(isWord p && (name.head?.map isWord).getD false) | none => true) &&
  (match (s.drop name.length).head? with
   | some n => !(isWord n && (name.getLast?.map isWord).getD false)
   | none => true)

/-- `Regex::new("\\bNAME\\b").replace_all(s, value)`; second component: was there a match? -/
def substWordGo (name value : Str) : Nat → Option Char → Str → Str × Bool
  | 0, _, s => (s, false)
  | _, _, [] => ([], false)
  | fuel + 1, prev, c :: cs =>
    if wordAt name prev (c :: cs) then
      let rest := (c :: cs).drop name.length
      let r := substWordGo name value fuel name.getLast? rest
      (value ++ r.1, true)
    else
      let r := substWordGo name value fuel (some c) cs
      (c :: r.1, r.2)

def substWord (name value s : Str) : Str × Bool := substWordGo name value (s.length + 1) none s

/-- one argument of a function-like macro call: the longest prefix made of characters other than
    `,()` and parenthesised groups nested at most `depth` deep. Returns (argument, rest). -/
def parseGroup : Nat → Str → Option (Str × Str)
  | _, [] => none
  | 0, _ => none
  | d + 1, c :: cs =>
    -- called just after an opening parenthesis; consumes up to the matching one
    let rec go (fuel : Nat) (acc : Str) (s : Str) : Option (Str × Str) :=
      match fuel, s with
      | 0, _ => none
      | _, [] => none
      | f + 1, x :: xs =>
        if x == ')' then some (acc.reverse, xs)
        else if x == '(' then
          match parseGroup d xs with
          | some (inner, rest) => go f ((')' :: inner.reverse) ++ ('(' :: acc)) rest
          | none => none
        else go f (x :: acc) xs
    go ((c :: cs).length + 1) [] (c :: cs)

def parseArg (s : Str) : Str × Str :=
  let rec go (fuel : Nat) (acc : Str) (s : Str) : Str × Str :=
    match fuel, s with
    | 0, _ => (acc.reverse, s)
    | _, [] => (acc.reverse, [])
    | f + 1, x :: xs =>
      if x == ',' || x == ')' then (acc.reverse, x :: xs)
      else if x == '(' then
        match parseGroup 4 xs with
        | some (inner, rest) => go f ((')' :: inner.reverse) ++ ('(' :: acc)) rest
        | none => (acc.reverse, x :: xs)
      else go f (x :: acc) xs
  go (s.length + 1) [] s

/-- arguments of a call with `n` parameters, starting just after `NAME(`; `none` = no match here -/
def parseArgs : Nat → Str → Option (List Str × Str)
  | 0, s => (match s with | ')' :: r => some ([], r) | _ => none)
  | 1, s =>
    let (a, r) := parseArg s
    (match r with | ')' :: r' => some ([a], r') | _ => none)
  | n + 2, s =>
    let (a, r) := parseArg s
    (match r with
     | ',' :: r' => (parseArgs (n + 1) r').map fun p => (a :: p.1, p.2)
     | _ => none)

/-- instantiate a template: `$name` (longest run of word characters) refers to a parameter,
    unknown names give the empty string, `$$` is a literal dollar -/
def instantiate (params : List Str) (args : List Str) : Nat → Str → Str
  | 0, s => s
  | _, [] => []
  | f + 1, '$' :: '$' :: r => '$' :: instantiate params args f r
  | f + 1, '$' :: r =>
    let nm := r.takeWhile isWord
    if nm.isEmpty then '$' :: instantiate params args f r
    else
      let v := match (params.zip args).find? (fun p => p.1 == nm) with
        | some p => p.2
        | none => []
      v ++ instantiate params args f (r.drop nm.length)
  | f + 1, c :: r => c :: instantiate params args f r

/-- replace every call `NAME(args)` of a function-like macro -/
def substCallGo (m : Macro) (params : List Str) : Nat → Option Char → Str → Str × Bool
  | 0, _, s => (s, false)
  | _, _, [] => ([], false)
  | fuel + 1, prev, c :: cs =>
    let s := c :: cs
    let startOk := m.name.isPrefixOf s &&
      (match prev with | some p => !(isWord p) | none => true) &&
      ((s.drop m.name.length).head? == some '(')
    let hit : Option (List Str × Str) :=
      if startOk then parseArgs params.length (s.drop (m.name.length + 1)) else none
    match hit with
    | some (args, rest) =>
      let r := substCallGo m params fuel (some ')') rest
      (instantiate params args (m.body.length + 1) m.body ++ r.1, true)
    | none =>
      let r := substCallGo m params fuel (some c) cs
      (c :: r.1, r.2)

def applyMacro (m : Macro) (s : Str) : Str × Bool :=
  match m.params with
  | none => substWord m.name m.body s
  | some ps => substCallGo m ps (s.length + 1) none s

/-- does the macro's regex match somewhere in `s`? (`RegexSet::matches`) -/
def macroMatches (m : Macro) (s : Str) : Bool := (applyMacro m s).2

inductive Fuel where | ok (s : Str) | diverge

/-- `Context::replace_all`: at the start of every pass the set of applicable macros is computed on the line as
    it is then; they are applied in definition order; passes repeat until one changes nothing. -/
def replaceAll (macros : List Macro) (s : Str) : Nat → Option Str
  | 0 => none            -- the Rust loop would still be running
  | fuel + 1 =>
    let rec pass (ms : List Macro) (res : Str) (changed : Bool) : Str × Bool :=
      match ms with
      | [] => (res, changed)
      | m :: r => let x := applyMacro m res; pass r x.1 (changed || x.2)
    let rec loop (n : Nat) (res : Str) : Option Str :=
      match n with
      | 0 => none
      | k + 1 =>
        let app := macros.filter fun m => macroMatches m res
        let x := pass app res false; if x.2 then loop k x.1 else some x.1
    loop (fuel + 1) s

/-! ### the `#if` evaluator -/

def isAlnumUnderscore (c : Char) : Bool := c.isAlphanum || c == '_'

inductive EvalErr where | nothing | undefinedIdent | trailing
  deriving Repr, DecidableEq

def evalTerm (s : Str) : Except EvalErr (Bool × Str) :=
  let s := trimStart s
  let term := s.takeWhile isAlnumUnderscore
  let rest := s.drop term.length
  match term with
  | [] => .error .nothing
  | c :: _ => if c.isDigit then .ok (term == ['1'], rest) else .error .undefinedIdent

def evalUnary : Nat → Str → Except EvalErr (Bool × Str)
  | 0, s => evalTerm s
  | f + 1, s =>
    match trimStart s with
    | '!' :: r => (evalUnary f r).map fun p => (!p.1, p.2)
    | s' => evalTerm s'

def evalEqGo : Nat → Bool → Str → Except EvalErr (Bool × Str)
  | 0, acc, s => .ok (acc, s)
  | f + 1, acc, s =>
    match trimStart s with
    | '=' :: '=' :: r =>
      (match evalUnary r.length r with
       | .ok (v, r') => evalEqGo f (acc != !v) r'
       | .error e => .error e)
    | s' => .ok (acc, s')

def evaluate (s : Str) : Except EvalErr Bool :=
  match evalUnary s.length s with
  | .error e => .error e
  | .ok (v, r) =>
    match evalEqGo (r.length + 1) v r with
    | .error e => .error e
    | .ok (v', r') => if (trimStart r').isEmpty then .ok v' else .error .trailing

/-! ### the conditional machine -/

inductive CState where | skip | inactive | active
  deriving Repr, DecidableEq, Inhabited

structure Cond where
  st : CState := .active
  stack : List CState := []
  deriving Repr, Inhabited

def Cond.pushIf (c : Cond) (truth : Bool) : Cond :=
  { stack := c.st :: c.stack, st := if c.st == .active then (if truth then .active else .inactive) else .skip }

def Cond.elif (c : Cond) (truth : Bool) : Cond :=
  { c with st := if c.st == .inactive then (if truth then .active else .inactive) else .skip }

def Cond.else_ (c : Cond) : Cond :=
  { c with st := if c.st == .inactive then .active else .skip }

def Cond.endif (c : Cond) : Option Cond :=
  match c.stack with
  | [] => none
  | s :: r => some { st := s, stack := r }

/-! ### one logical line: comments and literals -/

structure ScanOut where
  text : Str            -- uncommented_buf
  insertIt : Bool
  inComment : Bool
  literals : List Str   -- literals extracted from this line, in order
  deriving Repr

/-- closing quote search of the original: first `"` not preceded by a backslash, unless that
    backslash is itself preceded by a backslash (two-character look-back only) -/
def findClose : Nat → Str → Option Nat
  | 0, _ => none
  | f + 1, s =>
    match splitOnce ['"'] s with
    | none => none
    | some (left, rest) =>
      if !endsWith left ['\\'] then some left.length
      else if endsWith left ['\\', '\\'] then some left.length
      else (findClose f rest).map (· + left.length + 1)

inductive ScanErr where | unterminated deriving Repr, DecidableEq

def scanLine (asm : Bool) (litBase : Nat) : Nat → Bool → Str → Str → Bool → List Str → Except ScanErr ScanOut
  | 0, inC, _, acc, ins, lits => .ok { text := acc, insertIt := ins, inComment := inC, literals := lits }
  | _, inC, [], acc, ins, lits => .ok { text := acc, insertIt := ins, inComment := inC, literals := lits }
  | fuel + 1, true, rem, acc, ins, lits =>
    (match splitOnce ['*', '/'] rem with
     | some (_, after) =>
       if after.isEmpty then scanLine asm litBase fuel false [] acc ins lits
       else if after == ['\n'] then scanLine asm litBase fuel false [] acc ins lits
       else scanLine asm litBase fuel false after acc true lits
     | none => .ok { text := acc, insertIt := ins, inComment := true, literals := lits })
  | fuel + 1, false, rem, acc, ins, lits =>
    let beforeLine := match splitOnce ['/', '/'] rem with | some (b, _) => b | none => rem
    -- the text after `/*` is the untruncated remainder of the line (the pinned tree searched the
    -- piece cut at `//`; repaired in /repo by a `fix:` commit)
    let (s2, afterBlock) : Str × Option Str :=
      match splitOnce ['/', '*'] beforeLine with
      | some (b, _) => (b, some (rem.drop (b.length + 2)))
      | none => (beforeLine, none)
    let literalHere : Option Str :=
      if !startsWith s2 "#include".toList && !asm then (splitOnce ['"'] s2).map (·.1) else none
    match literalHere with
    | some left =>
      let cursor := left.length + 1
      (match findClose (rem.length + 1) (rem.drop cursor) with
       | none => .error .unterminated
       | some k =>
         let lit := (rem.drop cursor).take k
         let marker := left ++ ('@' :: (toString (litBase + lits.length)).toList) ++ ['@']
         scanLine asm litBase fuel false (rem.drop (cursor + k + 1)) (acc ++ marker) ins (lits ++ [lit]))
    | none =>
      let acc' := acc ++ s2
      let ins' := if acc'.isEmpty then false else ins
      (match afterBlock with
       | some a => scanLine asm litBase fuel true a acc' ins' lits
       | none => .ok { text := acc', insertIt := ins', inComment := false, literals := lits })

/-! ### the whole pass -/

structure Entry where
  file : String
  line : Nat
  inc : Option (String × Nat)
  deriving Repr, DecidableEq

inductive ErrKind where | syntax | compiler | io deriving Repr, DecidableEq

structure Err where
  kind : ErrKind
  file : String
  line : Nat
  inc : Option (String × Nat)
  msg : String
  deriving Repr

structure Ctx where
  macros : List Macro := []
  literals : List Str := []
  deriving Repr, Inhabited

def Ctx.defined (c : Ctx) (n : Str) : Bool := c.macros.any (·.name == n)

inductive Outcome where
  | ok (out : Str) (map : List Entry) (ctx : Ctx)
  | err (e : Err)
  | diverge
  deriving Repr

/-- physical lines, each including its terminating `\n` if it has one -/
def physLines (s : Str) : List Str :=
  let rec go (cur : Str) (s : Str) (acc : List Str) : List Str :=
    match s with
    | [] => if cur.isEmpty then acc.reverse else (cur.reverse :: acc).reverse
    | c :: r => if c == '\n' then go [] r ((c :: cur).reverse :: acc) else go (c :: cur) r acc
  go [] s []

/-- join spliced lines: returns (logical line, number of physical lines consumed, rest) -/
def spliceGroup : Nat → Str → Nat → List Str → Str × Nat × List Str
  | 0, buf, n, rest => (buf, n, rest)
  | f + 1, buf, n, rest =>
    let crlf := endsWith buf ['\\', '\r', '\n']
    if endsWith buf ['\\', '\n'] || crlf then
      let buf' := buf.take (buf.length - (if crlf then 3 else 2))
      match rest with
      | l :: r => spliceGroup f (buf' ++ l) (n + 1) r
      | [] => (buf', n, [])
    else (buf, n, rest)

/-- name and (trimmed, non-empty) argument of a directive line: split at the first space of the
    part before any `//` -/
def directiveParts (substr : Str) : Str × Option Str :=
  let s := match splitOnce ['/', '/'] substr with | some (b, _) => b | none => substr
  match splitOnce [' '] s with
  | some (n, r) => let t := trim r; (n, if t.isEmpty then none else some t)
  | none => (s, none)

/-- `define_regex` : NAME [ '(' params ')' ] ws* body ; params = identifiers separated by commas -/
def isIdStart (c : Char) : Bool := c.isAlpha || c == '_'

def parseParams (s : Str) : Option (List Str × Str) :=
  -- s starts just after '(' ; the original accepts `id (ws* , ws* id)*` or nothing, then ')'
  let rec go (fuel : Nat) (s : Str) (acc : List Str) : Option (List Str × Str) :=
    match fuel with
    | 0 => none
    | f + 1 =>
      let id := s.takeWhile isWord
      if id.isEmpty || !(id.head?.map isIdStart).getD false then none
      else
        let r := s.drop id.length
        let r1 := trimStart r
        match r1 with
        | ')' :: r2 => if r1.length == r.length then some ((id :: acc).reverse, r2) else none
        | ',' :: r2 => go f (trimStart r2) (id :: acc)
        | _ => none
  match s with
  | ')' :: r => some ([], r)
  | _ => go (s.length + 1) s []

structure DefParts where
  name : Str
  params : Option (List Str)
  body : Str
  deriving Repr

def parseDefine (expr : Str) : Option DefParts :=
  -- the regex is unanchored: it finds the first identifier start
  let s := expr.dropWhile fun c => !isIdStart c
  let name := s.takeWhile isWord
  if name.isEmpty then none else
  let r := s.drop name.length
  match r with
  | '(' :: r1 =>
    (match parseParams r1 with
     | some (ps, r2) => some { name := name, params := some ps, body := trimStart r2 }
     | none => some { name := name, params := none, body := trimStart r })
  | _ => some { name := name, params := none, body := trimStart r }

/-- turn parameter names in a body into `$name` references and delete `##` -/
def templatize (params : List Str) (body : Str) : Str :=
  let b := params.foldl (fun v p => (substWord (trimStart p) ('$' :: trimStart p) v).1) body
  let rec del (fuel : Nat) (s : Str) : Str :=
    match fuel, s with
    | 0, s => s
    | _, [] => []
    | f + 1, '#' :: '#' :: r => del f r
    | f + 1, c :: r => c :: del f r
  del (b.length + 1) b

abbrev Files := List (String × Str)

def isAsmName (n : String) : Bool := n.endsWith ".inc" || n.endsWith ".a" || n.endsWith ".asm"

structure PState where
  ctx : Ctx
  cond : Cond := {}
  inComment : Bool := false
  out : Str := []
  map : List Entry := []
  line : Nat := 0
  lastOpen : Bool := false     -- the last emitted line has no terminating newline

def mkErr (k : ErrKind) (file : String) (line : Nat) (inc : Option (String × Nat)) (msg : String) : Outcome :=
  .err { kind := k, file := file, line := line, inc := inc, msg := msg }

abbrev Recur := String → Option (String × Nat) → Bool → Ctx → Str → Outcome

/-- the line loop of `process` for one file; `recur` handles `#include` -/
def processLines (files : Files) (recur : Recur) (file : String) (inc : Option (String × Nat)) (asm : Bool) :
    Nat → List Str → PState → Outcome
  | fuel, ls, st =>
      match fuel, ls with
      | 0, _ => .diverge
      | _, [] => .ok (if st.lastOpen && inc.isSome then st.out ++ ['\n'] else st.out) st.map st.ctx
      | f + 1, l :: rest =>
        let (buf, n, rest') := spliceGroup (rest.length + 1) l 1 rest
        let line := st.line + n
        let hasLf := endsWith buf ['\n']
        match scanLine asm st.ctx.literals.length (buf.length + 2) st.inComment buf [] (!st.inComment) [] with
        | .error _ => mkErr .syntax file line inc "Unterminated string"
        | .ok sc =>
          let ctx := { st.ctx with literals := st.ctx.literals ++ sc.literals }
          let st := { st with ctx := ctx, inComment := sc.inComment, line := line }
          if !sc.insertIt then processLines files recur file inc asm f rest' st else
          let substr := trim sc.text
          let active := st.cond.st == .active
          if startsWith substr "#ifdef".toList then
            (match (directiveParts substr).2 with
             | none => mkErr .syntax file line inc "Expected something after `#ifdef`"
             | some e => processLines files recur file inc asm f rest' { st with cond := st.cond.pushIf (ctx.defined e) })
          else if startsWith substr "#ifndef".toList then
            (match (directiveParts substr).2 with
             | none => mkErr .syntax file line inc "Expected something after `#ifndef`"
             | some e => processLines files recur file inc asm f rest' { st with cond := st.cond.pushIf (!ctx.defined e) })
          else if startsWith substr "#undef".toList then
            if !active then processLines files recur file inc asm f rest' st else
            (match (directiveParts substr).2 with
             | none => mkErr .syntax file line inc "Expected something after `#undef`"
             | some e =>
               -- `undefine` removes the first table entry with that name
               let ms := match ctx.macros.findIdx? (·.name == e) with
                 | some i => ctx.macros.eraseIdx i
                 | none => ctx.macros
               processLines files recur file inc asm f rest' { st with ctx := { ctx with macros := ms } })
          else if startsWith substr "#define".toList then
            if !active then processLines files recur file inc asm f rest' st else
            (match (directiveParts substr).2 with
             | none => mkErr .syntax file line inc "Expected macro after `#define`"
             | some e =>
               match parseDefine e with
               | none => mkErr .syntax file line inc "panic: define_regex did not match"
               | some d =>
                 if ctx.defined d.name then mkErr .syntax file line inc "Macro already defined" else
                 match replaceAll ctx.macros d.body 200 with
                 | none => .diverge
                 | some value =>
                   let m : Macro := match d.params with
                     | none => { name := d.name, params := none, body := value }
                     | some ps => { name := d.name, params := some (ps.map trimStart), body := templatize ps value }
                   processLines files recur file inc asm f rest' { st with ctx := { ctx with macros := ctx.macros ++ [m] } })
          else
            match replaceAll ctx.macros sc.text 200 with
            | none => .diverge
            | some newLine =>
              let sub := trim newLine
              if startsWith sub ['#'] then
                let (name, arg) := directiveParts sub
                let nameS := String.ofList name
                if nameS == "#include" then
                  if !active then processLines files recur file inc asm f rest' st else
                  (match arg with
                   | none => mkErr .syntax file line inc "Expected filename after `#include`"
                   | some e =>
                     let close : Option Char := match e.head? with
                       | some '<' => some '>' | some '"' => some '"' | _ => none
                     match close with
                     | none => mkErr .syntax file line inc "Expected < or \" in #include filename spec"
                     | some cl =>
                       let body := e.drop 1
                       if !body.contains cl then mkErr .syntax file line inc "Missing end separator in #include fname" else
                       let fname := String.ofList (body.takeWhile (· != cl))
                       match files.find? (·.1 == fname) with
                       | none => mkErr .syntax file line inc "Included file not found"
                       | some (_, content) =>
                         let isAsm := isAsmName fname
                         let e1 : Entry := { file := file, line := line, inc := inc }
                         let pre : Str × List Entry :=
                           if isAsm then ("=== ASSEMBLER BEGIN ===\n".toList ++ ("; file: " ++ fname ++ "\n").toList, [e1, e1])
                           else ([], [])
                         match recur fname (some (file, line)) isAsm st.ctx content with
                         | .ok o mp ctx' =>
                           let post : Str × List Entry :=
                             if isAsm then ("==== ASSEMBLER END ====\n".toList, [e1]) else ([], [])
                           let st2 : PState := { st with ctx := ctx', out := st.out ++ pre.1 ++ o ++ post.1,
                                                         map := st.map ++ pre.2 ++ mp ++ post.2 }
                           processLines files recur file inc asm f rest' st2
                         | other => other)
                else if nameS == "#if" then
                  (match arg with
                   | none => mkErr .syntax file line inc "Expected expression after `#if`"
                   | some e =>
                     if active then
                       match evaluate e with
                       | .ok v => processLines files recur file inc asm f rest' { st with cond := st.cond.pushIf v }
                       | .error _ => mkErr .syntax file line inc "bad #if expression"
                     else processLines files recur file inc asm f rest' { st with cond := st.cond.pushIf false })
                else if nameS == "#elif" then
                  (match arg with
                   | none => mkErr .syntax file line inc "Expected expression after `#elif`"
                   | some e =>
                     if st.cond.st == .inactive then
                       match evaluate e with
                       | .ok v => processLines files recur file inc asm f rest' { st with cond := st.cond.elif v }
                       | .error _ => mkErr .syntax file line inc "bad #if expression"
                     else processLines files recur file inc asm f rest' { st with cond := st.cond.elif false })
                else if nameS == "#else" then
                  if arg.isSome then mkErr .syntax file line inc "Unexpected expression after `#else`"
                  else processLines files recur file inc asm f rest' { st with cond := st.cond.else_ }
                else if nameS == "#endif" then
                  if arg.isSome then mkErr .syntax file line inc "Unexpected expression after `#else`"
                  else (match st.cond.endif with
                        | none => mkErr .syntax file line inc "Unexpected `#endif` with no matching `#if`"
                        | some c => processLines files recur file inc asm f rest' { st with cond := c })
                else if nameS == "#error" then
                  if !active then processLines files recur file inc asm f rest' st else
                  (match arg with
                   | none => mkErr .syntax file line inc "Expected error text after `#error`"
                   | some e => mkErr .compiler file line inc (String.ofList e))
                else mkErr .syntax file line inc "Unrecognised preprocessor directive"
              else if active then
                let e1 : Entry := { file := file, line := line, inc := inc }
                let text := if !endsWith newLine ['\n'] && hasLf then newLine ++ ['\n'] else newLine
                let st3 : PState := { st with out := st.out ++ text, map := st.map ++ [e1], lastOpen := !endsWith newLine ['\n'] && !hasLf }
                processLines files recur file inc asm f rest' st3
              else processLines files recur file inc asm f rest' st

/-- `process` for one file (recursive on `#include` through `depth`) -/
def processFile (files : Files) : Nat → Recur
  | 0 => fun _ _ _ _ _ => .diverge
  | depth + 1 => fun file inc asm ctx0 input =>
    let ls := physLines input
    processLines files (processFile files depth) file inc asm (ls.length + 1) ls { ctx := ctx0 }

def process (files : Files) (mainName : String) (defines : List (Str × Str)) (input : Str) : Outcome :=
  let ctx : Ctx := { macros := defines.map fun d => { name := d.1, params := none, body := d.2 } }
  processFile files 16 mainName none false ctx input

end CV.Cpp
