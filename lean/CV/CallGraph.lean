/-
  CV.CallGraph — port of `compute_functions_actually_in_use` / `function_is_actually_in_use`
  (src/generate/generate_asm.rs): depth-first closure of the published call tree from `main` and
  the interrupt handlers. The recursion of the original is rendered as an explicit stack.
-/
namespace CV.CallGraph

abbrev Tree := List (String × List String)

def callees (t : Tree) (f : String) : List String :=
  match t.find? (·.1 == f) with
  | some p => p.2
  | none => []

/-- worklist DFS; `none` = fuel exhausted (never happens with the fuel `inUse` supplies) -/
def dfs (t : Tree) : Nat → List String → List String → Option (List String)
  | _, [], vis => some vis
  | 0, _ :: _, _ => none
  | n + 1, f :: stack, vis =>
    if f ∈ vis then dfs t n stack vis else dfs t n (callees t f ++ stack) (f :: vis)

def fuelFor (t : Tree) (roots : List String) : Nat :=
  roots.length + (t.map fun p => p.2.length + 1).sum + t.length + 2 * roots.length + 8

/-- the set of functions in use (as a list without duplicates) -/
def inUse (t : Tree) (interrupts : List String) : Option (List String) :=
  let roots := "main" :: interrupts
  dfs t (fuelFor t roots) roots []

end CV.CallGraph
