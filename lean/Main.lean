/-
  cvmodel — line-protocol driver of the Lean models (compiled; imports no Mathlib).
  One request per line, one answer per line. The definitions that run here are the ones
  the theorems in CV/Props are about.
-/
import CV.Driver

partial def loop (h : IO.FS.Stream) (out : IO.FS.Stream) (st : CV.DState) : IO Unit := do
  let line ← h.getLine
  if line.isEmpty then return ()
  let (st', ans) := CV.handle st (line.trimAscii.toString)
  out.putStrLn ans
  out.flush
  loop h out st'

def main : IO Unit := do
  let out ← IO.getStdout
  loop (← IO.getStdin) out {}
  out.flush
