namespace Cond

inductive St | active | inactive | skip
deriving DecidableEq, Repr

inductive Dir
  | ifc (b : Bool) | elif (b : Bool) | else_ | endif | text (n : Nat)
deriving Repr

abbrev MS := St × List St

def step : MS → Dir → Option (MS × List Nat)
  | (st, stk), .ifc b =>
      some ((if st = .active then (if b then .active else .inactive) else .skip, st :: stk), [])
  | (st, stk), .elif b =>
      some ((if st = .inactive then (if b then .active else .inactive) else .skip, stk), [])
  | (st, stk), .else_ =>
      some ((if st = .inactive then .active else .skip, stk), [])
  | (_, stk), .endif =>
      match stk with
      | [] => none
      | s :: rest => some ((s, rest), [])
  | (st, stk), .text n => some ((st, stk), if st = .active then [n] else [])

def run : MS → List Dir → Option (MS × List Nat)
  | ms, [] => some (ms, [])
  | ms, d :: ds =>
    match step ms d with
    | none => none
    | some (ms', out) =>
      match run ms' ds with
      | none => none
      | some (ms'', out') => some (ms'', out ++ out')

theorem run_append (ms : MS) (xs ys : List Dir) :
    run ms (xs ++ ys) =
      match run ms xs with
      | none => none
      | some (ms', o) => match run ms' ys with
        | none => none
        | some (ms'', o') => some (ms'', o ++ o') := by
  induction xs generalizing ms with
  | nil => simp [run]; cases run ms ys <;> simp
  | cons d ds ih =>
    simp only [List.cons_append, run]
    cases h : step ms d with
    | none => simp
    | some p =>
      obtain ⟨ms', o⟩ := p
      simp only [ih]
      cases run ms' ds with
      | none => simp
      | some q =>
        obtain ⟨m2, o2⟩ := q
        simp only
        cases run m2 ys with
        | none => simp
        | some r => simp [List.append_assoc]

mutual
inductive Item
  | text : Nat → Item
  | group : Bool → Items → Branches → Item
inductive Items
  | nil : Items
  | cons : Item → Items → Items
inductive Branches
  | fin : Branches                       -- #endif
  | elif : Bool → Items → Branches → Branches
  | els : Items → Branches               -- #else ... #endif
end

mutual
def flatI : Item → List Dir
  | .text n => [.text n]
  | .group b body rest => .ifc b :: (flatIs body ++ flatB rest)
def flatIs : Items → List Dir
  | .nil => []
  | .cons i is => flatI i ++ flatIs is
def flatB : Branches → List Dir
  | .fin => [.endif]
  | .elif b body rest => .elif b :: (flatIs body ++ flatB rest)
  | .els body => .else_ :: (flatIs body ++ [.endif])
end

-- Specification: C's rule. `on` = every enclosing group selected this branch.
mutual
def specI (on : Bool) : Item → List Nat
  | .text n => if on then [n] else []
  | .group b body rest => specIs (on && b) body ++ specB on b rest
def specIs (on : Bool) : Items → List Nat
  | .nil => []
  | .cons i is => specI on i ++ specIs on is
-- `taken` = some earlier branch of this group had a true condition
def specB (on : Bool) (taken : Bool) : Branches → List Nat
  | .fin => []
  | .elif b body rest => specIs (on && !taken && b) body ++ specB on (taken || b) rest
  | .els body => specIs (on && !taken) body
end

def isActive (s : St) : Bool := s = .active

/-- state inside a group of an enclosing state `st`, given whether a branch was taken and
    whether the current branch is the selected one -/
def inGroup (st : St) (taken cur : Bool) : St :=
  if st = .active then (if cur then .active else if taken then .skip else .inactive) else .skip

mutual
theorem runI (i : Item) (st : St) (stk : List St) :
    run (st, stk) (flatI i) = some ((st, stk), specI (isActive st) i) := by
  cases i with
  | text n => cases st <;> simp [flatI, run, step, specI, isActive]
  | group b body rest =>
    simp only [flatI, run, step]
    have hb := runIs body (if st = .active then (if b then .active else .inactive) else .skip) (st :: stk)
    have hr := runB rest st stk b b (by cases b <;> simp)
    rw [run_append, hb]
    simp only [inGroup] at hr
    cases st <;> cases b <;> simp_all [specI, isActive, inGroup]
theorem runIs (is : Items) (st : St) (stk : List St) :
    run (st, stk) (flatIs is) = some ((st, stk), specIs (isActive st) is) := by
  cases is with
  | nil => simp [flatIs, run, specIs]
  | cons i rest =>
    simp only [flatIs]
    rw [run_append, runI i st stk]
    simp only
    rw [runIs rest st stk]
    simp [specIs]
/-- from the state reached at the end of a branch (selected = `cur`, some branch taken = `taken`,
    with `cur → taken`), the rest of the group emits `specB` and restores `(st, stk)`. -/
theorem runB (r : Branches) (st : St) (stk : List St) (taken cur : Bool) (h : cur = true → taken = true) :
    run (inGroup st taken cur, st :: stk) (flatB r)
      = some ((st, stk), specB (isActive st) taken r) := by
  cases r with
  | fin => simp [flatB, run, step, specB]
  | elif b body rest =>
    simp only [flatB, run, step]
    have hb := runIs body (if inGroup st taken cur = .inactive then (if b then .active else .inactive) else .skip) (st :: stk)
    have hr := runB rest st stk (taken || b) (!taken && b) (by cases taken <;> cases b <;> simp)
    rw [run_append, hb]
    cases st <;> cases taken <;> cases cur <;> cases b <;> simp_all [specB, isActive, inGroup]
  | els body =>
    simp only [flatB, run, step]
    have hb := runIs body (if inGroup st taken cur = .inactive then .active else .skip) (st :: stk)
    rw [run_append, hb]
    cases st <;> cases taken <;> cases cur <;> simp_all [specB, isActive, inGroup, run, step]
end

/-- C07 on the model: a well-nested stream, run from the initial state, emits exactly the
    lines C's rule selects and ends in the initial state. -/
theorem machine_refines_spec (is : Items) :
    run (.active, []) (flatIs is) = some ((.active, []), specIs true is) := by
  simpa [isActive] using runIs is .active []

#print axioms machine_refines_spec
end Cond
