import Spike.Basic
open Spike

structure M where
  a : BitVec 8
  c : Bool
  mem : Array (BitVec 8)

@[inline] def rd (m : M) (ad : Nat) : BitVec 8 := m.mem.getD ad 0
@[inline] def wr (m : M) (ad : Nat) (b : BitVec 8) : M := { m with mem := m.mem.setIfInBounds ad b }

def stepN : Nat → M → M
  | 0, m => m
  | n+1, m =>
    -- LDA $10 ; CLC ; ADC $11 ; STA $10 ; INC $11
    let a := rd m 0x10
    let (r, c) := adc8 a (rd m 0x11) false
    let m := wr { m with a := r, c := c } 0x10 r
    let m := wr m 0x11 (rd m 0x11 + 1)
    stepN n m

def main (args : List String) : IO Unit := do
  let n := (args.headD "1000000").toNat!
  let m : M := { a := 0, c := false, mem := Array.replicate 65536 0 }
  let r := stepN n m
  IO.println s!"{r.a.toNat} {(rd r 0x10).toNat} {(rd r 0x11).toNat}"
