namespace Spike

abbrev Byte := BitVec 8
abbrev Addr := BitVec 16

structure Cpu where
  a : Byte
  x : Byte
  y : Byte
  sp : Byte
  c : Bool
  z : Bool
  n : Bool
  v : Bool
  mem : Addr → Byte

def Cpu.setNZ (s : Cpu) (b : Byte) : Cpu := { s with z := b == 0, n := b.msb }

def Cpu.write (s : Cpu) (ad : Addr) (b : Byte) : Cpu :=
  { s with mem := fun q => if q = ad then b else s.mem q }

inductive Opnd where
  | imm (b : Byte)
  | abs (ad : Addr)
  | absX (ad : Addr)
  | absY (ad : Addr)

def Opnd.ea (s : Cpu) : Opnd → Option Addr
  | .imm _ => none
  | .abs ad => some ad
  | .absX ad => some (ad + s.x.zeroExtend 16)
  | .absY ad => some (ad + s.y.zeroExtend 16)

def Opnd.val (s : Cpu) : Opnd → Byte
  | .imm b => b
  | o => match o.ea s with | some ad => s.mem ad | none => 0

inductive Ins where
  | lda (o : Opnd) | sta (o : Opnd) | adc (o : Opnd) | sbc (o : Opnd)
  | and_ (o : Opnd) | clc | sec | inc (o : Opnd) | tax | txa

def adc8 (a b : Byte) (c : Bool) : Byte × Bool :=
  let s : BitVec 9 := a.zeroExtend 9 + b.zeroExtend 9 + (if c then 1 else 0)
  (s.truncate 8, s.msb)

def exec (s : Cpu) : Ins → Cpu
  | .lda o => let b := o.val s; ({ s with a := b }).setNZ b
  | .sta o => match o.ea s with | some ad => s.write ad s.a | none => s
  | .adc o => let (r, c') := adc8 s.a (o.val s) s.c
              ({ s with a := r, c := c' }).setNZ r   -- V omitted in spike
  | .sbc o => let (r, c') := adc8 s.a (~~~ (o.val s)) s.c
              ({ s with a := r, c := c' }).setNZ r
  | .and_ o => let r := s.a &&& o.val s; ({ s with a := r }).setNZ r
  | .clc => { s with c := false }
  | .sec => { s with c := true }
  | .inc o => match o.ea s with
      | some ad => let r := s.mem ad + 1; (s.write ad r).setNZ r
      | none => s
  | .tax => ({ s with x := s.a }).setNZ s.a
  | .txa => ({ s with a := s.x }).setNZ s.x

def run (s : Cpu) (is : List Ins) : Cpu := is.foldl exec s

-- template: a = b + c   ==>  LDA b ; CLC ; ADC c ; STA a
theorem add_template (s : Cpu) (pa pb pc : Addr) :
    (run s [.lda (.abs pb), .clc, .adc (.abs pc), .sta (.abs pa)]).mem pa = s.mem pb + s.mem pc := by
  simp [run, exec, Opnd.val, Opnd.ea, Cpu.setNZ, Cpu.write, adc8]
  bv_omega

theorem add_template_frame (s : Cpu) (pa pb pc q : Addr) (h : q ≠ pa) :
    (run s [.lda (.abs pb), .clc, .adc (.abs pc), .sta (.abs pa)]).mem q = s.mem q := by
  simp [run, exec, Opnd.val, Opnd.ea, Cpu.setNZ, Cpu.write, adc8, h]

-- rule lemma: STA m ; LDA m  changes at most N,Z relative to STA m alone
theorem sta_lda_same (s : Cpu) (m : Addr) :
    let s1 := exec s (.sta (.abs m))
    let s2 := exec s1 (.lda (.abs m))
    s2 = s1.setNZ s1.a := by
  simp [exec, Opnd.val, Opnd.ea, Cpu.setNZ, Cpu.write]

-- sub template: a = b - c
theorem sub_template (s : Cpu) (pa pb pc : Addr) :
    (run s [.lda (.abs pb), .sec, .sbc (.abs pc), .sta (.abs pa)]).mem pa = s.mem pb - s.mem pc := by
  simp [run, exec, Opnd.val, Opnd.ea, Cpu.setNZ, Cpu.write, adc8]
  bv_omega

-- compare: CMP semantic carry = a >= b (unsigned)
def cmp8 (a b : Byte) : Bool × Bool × Bool :=
  let (r, c) := adc8 a (~~~ b) true
  (c, r == 0, r.msb)

end Spike
