import Spike.Flow
namespace Flow
open Spike

def labels : Prog → List String
  | [] => []
  | .label l :: rest => l :: labels rest
  | _ :: rest => labels rest

theorem labels_append (p q : Prog) : labels (p ++ q) = labels p ++ labels q := by
  induction p with
  | nil => rfl
  | cons x xs ih => cases x <;> simp [labels, ih]

theorem findLabel_none_of_not_mem {p : Prog} {l : String} (h : l ∉ labels p) : findLabel p l = none := by
  induction p with
  | nil => rfl
  | cons x xs ih =>
    cases x with
    | label l' =>
      simp only [labels, List.mem_cons, not_or] at h
      simp [findLabel, Ne.symm h.1, ih h.2]
    | _ => simp [labels] at h; simp [findLabel, ih h]

theorem findLabel_lt {p : Prog} {l : String} {j : Nat} (h : findLabel p l = some j) : j < p.length := by
  induction p generalizing j with
  | nil => simp [findLabel] at h
  | cons x xs ih =>
    cases x with
    | label l' =>
      simp only [findLabel] at h
      split at h
      · simp at h; subst h; simp
      · cases hx : findLabel xs l with
        | none => simp [hx] at h
        | some j' => simp [hx] at h; have := ih hx; simp; omega
    | _ =>
      simp only [findLabel] at h
      cases hx : findLabel xs l with
      | none => simp [hx] at h
      | some j' => simp [hx] at h; have := ih hx; simp; omega

theorem findLabel_append (p q : Prog) (l : String) :
    findLabel (p ++ q) l =
      match findLabel p l with
      | some j => some j
      | none => (findLabel q l).map (· + p.length) := by
  induction p with
  | nil => simp [findLabel]
  | cons x xs ih =>
    cases x with
    | label l' =>
      simp only [List.cons_append, findLabel]
      split
      · simp
      · rw [ih]; cases findLabel xs l <;> simp
        cases findLabel q l <;> simp; omega
    | _ =>
      simp only [List.cons_append, findLabel]
      rw [ih]; cases findLabel xs l <;> simp
      cases findLabel q l <;> simp; omega

/-- block-relative outcome -/
inductive OutB
  | next (k : Nat) (s : Cpu)        -- stay inside / fall through at k = length
  | ext (l : String) (s : Cpu)      -- jump to a label not defined in the block

def stepB (b : Prog) (k : Nat) (s : Cpu) : Option OutB :=
  match b[k]? with
  | none => none
  | some (.label _) => some (.next (k + 1) s)
  | some (.ins i) => some (.next (k + 1) (exec s i))
  | some (.cmp o) => some (.next (k + 1) (execCmp s o))
  | some (.br c l) =>
      if c.taken s then
        match findLabel b l with
        | some t => some (.next t s)
        | none => some (.ext l s)
      else some (.next (k + 1) s)
  | some (.jmp l) =>
      match findLabel b l with
      | some t => some (.next t s)
      | none => some (.ext l s)

/-- Frame lemma: a step of the whole program at a position inside `blk` is the block's own step,
    provided the labels of the whole program are pairwise distinct. -/
theorem step_frame (pre blk post : Prog) (k : Nat) (s : Cpu) (hk : k < blk.length)
    (hnd : (labels (pre ++ blk ++ post)).Nodup) :
    step (pre ++ blk ++ post) (pre.length + k) s =
      match stepB blk k s with
      | some (.next k' s') => .next (pre.length + k') s'
      | some (.ext l s') =>
          (match findLabel (pre ++ blk ++ post) l with
           | some t => .next t s'
           | none => .stuck)
      | none => .done s := by
  have hget : (pre ++ blk ++ post)[pre.length + k]? = blk[k]? := by
    rw [List.append_assoc, List.getElem?_append_right (by omega)]
    simp [List.getElem?_append_left hk]
  have hfind : ∀ l t, findLabel blk l = some t →
      findLabel (pre ++ blk ++ post) l = some (pre.length + t) := by
    intro l t ht
    have hin : l ∈ labels blk := by
      by_cases hc : l ∈ labels blk
      · exact hc
      · rw [findLabel_none_of_not_mem hc] at ht; cases ht
    have hpre : l ∉ labels pre := by
      intro hp
      rw [labels_append, labels_append] at hnd
      have := (List.nodup_append.mp (List.nodup_append.mp hnd).1).2.2 l hp l hin
      exact this rfl
    rw [List.append_assoc, findLabel_append, findLabel_none_of_not_mem hpre]
    simp [findLabel_append, ht]; omega
  unfold step stepB
  rw [hget]
  cases hl : blk[k]? with
  | none => simp [List.getElem?_eq_none_iff] at hl; omega
  | some ln =>
    cases ln with
    | label l => simp; omega
    | ins i => simp; omega
    | cmp o => simp; omega
    | br c l =>
      simp only
      split
      · cases hf : findLabel blk l with
        | some t => have := hfind l t hf; simp only [List.append_assoc] at this; simp [this]
        | none => simp only [List.append_assoc]; rfl
      · simp; omega
    | jmp l =>
      simp only
      cases hf : findLabel blk l with
      | some t => have := hfind l t hf; simp only [List.append_assoc] at this; simp [this]
      | none => simp only [List.append_assoc]; rfl

#print axioms step_frame
end Flow
