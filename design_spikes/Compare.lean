import Spike.Basic
namespace Spike

theorem cmp_carry' (a b : Byte) : (cmp8 a b).1 = decide (b ≤ a) := by
  simp only [cmp8, adc8, BitVec.msb_eq_decide, BitVec.le_def]
  simp [BitVec.toNat_add, BitVec.toNat_not]
  have := a.isLt; have := b.isLt
  omega

theorem cmp_zero (a b : Byte) : (cmp8 a b).2.1 = (a == b) := by
  simp only [cmp8, adc8]
  rw [Bool.eq_iff_iff]
  simp [← BitVec.toNat_inj, BitVec.toNat_add, BitVec.toNat_not]
  have := a.isLt; have := b.isLt
  omega

-- try kernel decide over all byte pairs
theorem cmp_carry_dec : ∀ a b : Byte, (cmp8 a b).1 = decide (b ≤ a) := by
  decide +kernel

#print axioms cmp_carry'
#print axioms cmp_zero
#print axioms cmp_carry_dec
end Spike
