import Spike.Basic
namespace Flow
open Spike

inductive BrK | beq | bne | bcc | bcs | bmi | bpl
deriving DecidableEq, Repr

def BrK.taken (s : Cpu) : BrK → Bool
  | .beq => s.z | .bne => !s.z | .bcc => !s.c | .bcs => s.c | .bmi => s.n | .bpl => !s.n

inductive Line
  | label (l : String)
  | ins (i : Ins)
  | cmp (o : Opnd)
  | br (k : BrK) (l : String)
  | jmp (l : String)

abbrev Prog := List Line

def findLabel : Prog → String → Option Nat
  | [], _ => none
  | .label l' :: rest, l => if l' = l then some 0 else (findLabel rest l).map (· + 1)
  | _ :: rest, l => (findLabel rest l).map (· + 1)

def execCmp (s : Cpu) (o : Opnd) : Cpu :=
  let (c, z, n) := cmp8 s.a (o.val s)
  { s with c := c, z := z, n := n }

/-- outcome of one step at position pc of program p -/
inductive Out
  | next (pc : Nat) (s : Cpu)      -- continue at pc
  | stuck                           -- undefined label
  | done (s : Cpu)                  -- pc ran off the end

def step (p : Prog) (pc : Nat) (s : Cpu) : Out :=
  match p[pc]? with
  | none => .done s
  | some (.label _) => .next (pc + 1) s
  | some (.ins i) => .next (pc + 1) (exec s i)
  | some (.cmp o) => .next (pc + 1) (execCmp s o)
  | some (.br k l) =>
      if k.taken s then
        match findLabel p l with
        | some t => .next t s
        | none => .stuck
      else .next (pc + 1) s
  | some (.jmp l) =>
      match findLabel p l with
      | some t => .next t s
      | none => .stuck

def run (p : Prog) : Nat → Nat → Cpu → Option Cpu
  | 0, _, _ => none
  | f + 1, pc, s =>
    match step p pc s with
    | .done s' => some s'
    | .stuck => none
    | .next pc' s' => run p f pc' s'

-- if (a < b) c = 3;   ==>  LDA a ; CMP b ; BCS .e ; LDA #3 ; STA c ; .e
def ifLt (pa pb pc : Addr) : Prog :=
  [.ins (.lda (.abs pa)), .cmp (.abs pb), .br .bcs ".e", .ins (.lda (.imm 3)), .ins (.sta (.abs pc)), .label ".e"]

theorem cmp_carry (a b : Byte) : (cmp8 a b).1 = decide (b ≤ a) := by
  simp only [cmp8, adc8, BitVec.msb_eq_decide, BitVec.le_def]
  simp [BitVec.toNat_add, BitVec.toNat_not]
  have := a.isLt; have := b.isLt
  omega

theorem ifLt_mem (s : Cpu) (pa pb pc q : Addr) :
    (run (ifLt pa pb pc) 10 0 s).map (fun s' => s'.mem q) =
      some (if q = pc ∧ s.mem pa < s.mem pb then 3 else s.mem q) := by
  have hc := cmp_carry (s.mem pa) (s.mem pb)
  by_cases h : s.mem pa < s.mem pb
  · have h' : ¬ (s.mem pb ≤ s.mem pa) := by simpa [BitVec.not_le] using h
    simp [h'] at hc
    simp [run, step, ifLt, findLabel, exec, execCmp, Opnd.val, Opnd.ea, Cpu.setNZ, BrK.taken, hc,
      Cpu.write, h]
  · have h' : (s.mem pb ≤ s.mem pa) := by simpa [BitVec.not_lt] using h
    simp [h'] at hc
    simp [run, step, ifLt, findLabel, exec, execCmp, Opnd.val, Opnd.ea, Cpu.setNZ, BrK.taken, hc, h]
end Flow
