// vh — in-process driver of the real cc6502 code (built from /repo's working tree with
// --cfg cc6502_verif). One request per stdin line, one JSON answer per stdout line.
// Text fields travel hex-encoded. See /verif/DESIGN.md (section 3.2).

use cc6502::assemble::{AsmInstruction, AsmMnemonic, AssemblyCode, VerifLine};
use cc6502::compile::{
    compile, CompilerState, VariableDefinition, VariableMemory, VariableType, VariableValue,
};
use cc6502::error::Error;
use cc6502::generate::GeneratorState;
use cc6502::Args;
use clap::Parser;
use std::cell::RefCell;
use std::collections::HashMap;
use std::io::{BufRead, Write};

// ---------- small helpers ----------

fn hex(s: &[u8]) -> String {
    if s.is_empty() {
        return "-".to_string();
    }
    let mut o = String::with_capacity(s.len() * 2);
    for b in s {
        o.push_str(&format!("{:02x}", b));
    }
    o
}

fn unhex(s: &str) -> Vec<u8> {
    if s == "-" {
        return Vec::new();
    }
    let b = s.as_bytes();
    let mut o = Vec::with_capacity(b.len() / 2);
    let mut i = 0;
    while i + 1 < b.len() {
        let h = (b[i] as char).to_digit(16).unwrap_or(0) as u8;
        let l = (b[i + 1] as char).to_digit(16).unwrap_or(0) as u8;
        o.push(h * 16 + l);
        i += 2;
    }
    o
}

fn unhexs(s: &str) -> String {
    String::from_utf8_lossy(&unhex(s)).to_string()
}

fn js(s: &str) -> String {
    // JSON string with the text hex-encoded (keeps the protocol byte-exact)
    format!("\"{}\"", hex(s.as_bytes()))
}

fn mnemonic_of(s: &str) -> Option<AsmMnemonic> {
    use AsmMnemonic::*;
    Some(match s {
        "LDA" => LDA, "LDX" => LDX, "LDY" => LDY, "STA" => STA, "STX" => STX, "STY" => STY,
        "TAX" => TAX, "TAY" => TAY, "TXA" => TXA, "TYA" => TYA, "ADC" => ADC, "SBC" => SBC,
        "EOR" => EOR, "AND" => AND, "ORA" => ORA, "LSR" => LSR, "ASL" => ASL, "ROL" => ROL,
        "ROR" => ROR, "CLC" => CLC, "SEC" => SEC, "CMP" => CMP, "CPX" => CPX, "CPY" => CPY,
        "BCC" => BCC, "BCS" => BCS, "BEQ" => BEQ, "BMI" => BMI, "BNE" => BNE, "BPL" => BPL,
        "INC" => INC, "INX" => INX, "INY" => INY, "DEC" => DEC, "DEX" => DEX, "DEY" => DEY,
        "JMP" => JMP, "JSR" => JSR, "RTS" => RTS, "RTI" => RTI, "PHA" => PHA, "PLA" => PLA,
        "PHP" => PHP, "PLP" => PLP, "NOP" => NOP,
        _ => return None,
    })
}

fn line_json(l: &VerifLine) -> String {
    match l {
        VerifLine::Label(s) => format!("[\"L\",{}]", js(s)),
        VerifLine::Instruction(i) => format!(
            "[\"I\",\"{}\",{},{},{},{},{}]",
            i.mnemonic,
            js(&i.dasm_operand),
            i.nb_bytes,
            i.cycles,
            match i.cycles_alt {
                Some(a) => a.to_string(),
                None => "null".to_string(),
            },
            i.protected
        ),
        VerifLine::Inline(s, n) => format!("[\"N\",{},{}]", js(s), n),
        VerifLine::Comment(s) => format!("[\"C\",{}]", js(s)),
        VerifLine::Dummy => "[\"D\"]".to_string(),
    }
}

fn code_json(code: &AssemblyCode) -> String {
    let ls: Vec<String> = code.verif_lines().iter().map(line_json).collect();
    let mut text = Vec::new();
    let _ = code.write(&mut text, false);
    format!(
        "{{\"lines\":[{}],\"size\":{},\"text\":\"{}\"}}",
        ls.join(","),
        code.size_bytes(),
        hex(&text)
    )
}

// line vector from request tokens: L:<hex> | I:<mn>:<ophex>:<bytes>:<cyc>:<alt|->:<prot 0/1> | N:<hex>:<size|-> | C:<hex> | D
fn code_of_tokens(toks: &[&str]) -> Result<AssemblyCode, String> {
    let mut code = AssemblyCode::new();
    for t in toks {
        let f: Vec<&str> = t.split(':').collect();
        match f[0] {
            "L" => code.append_label(unhexs(f[1])),
            "I" => {
                let mn = mnemonic_of(f[1]).ok_or(format!("bad mnemonic {}", f[1]))?;
                code.append_asm(AsmInstruction {
                    mnemonic: mn,
                    dasm_operand: unhexs(f[2]),
                    nb_bytes: f[3].parse().map_err(|_| "bad bytes")?,
                    cycles: f[4].parse().map_err(|_| "bad cycles")?,
                    cycles_alt: if f[5] == "-" { None } else { f[5].parse().ok() },
                    protected: f[6] == "1",
                })
            }
            "N" => code.append_inline(unhexs(f[1]), if f[2] == "-" { None } else { f[2].parse().ok() }),
            "C" => code.append_comment(unhexs(f[1])),
            "D" => {
                code.append_dummy();
            }
            _ => return Err(format!("bad line token {}", t)),
        }
    }
    Ok(code)
}

fn err_json(e: &Error) -> String {
    match e {
        Error::Syntax { filename, included_in, line, msg } | Error::Compiler { filename, included_in, line, msg } => {
            let kind = if let Error::Syntax { .. } = e { "syntax" } else { "compiler" };
            let (incf, incl) = match included_in {
                Some((f, l)) => (js(f), l.to_string()),
                None => ("null".to_string(), "null".to_string()),
            };
            format!(
                "{{\"kind\":\"{}\",\"file\":{},\"line\":{},\"inc_file\":{},\"inc_line\":{},\"msg\":{}}}",
                kind, js(filename), line, incf, incl, js(msg)
            )
        }
        other => format!(
            "{{\"kind\":\"other\",\"file\":null,\"line\":null,\"inc_file\":null,\"inc_line\":null,\"msg\":{}}}",
            js(&format!("{}", other))
        ),
    }
}

// ---------- the builder used for `compile` ----------

#[derive(Default)]
struct Job {
    mode: u8, // 0 compile, 1 asm matrix, 2 call tree
    scheme: String,
    queries: Vec<String>,
    result: String,
}

thread_local! {
    static JOB: RefCell<Job> = RefCell::new(Job::default());
}

fn memory_name(m: &VariableMemory) -> String {
    match m {
        VariableMemory::ROM(b) => format!("rom{}", b),
        VariableMemory::Zeropage => "zp".into(),
        VariableMemory::Superchip => "superchip".into(),
        VariableMemory::Display => "display".into(),
        VariableMemory::Frequency => "frequency".into(),
        VariableMemory::Ramchip => "ramchip".into(),
        VariableMemory::Ramplus => "ramplus".into(),
        VariableMemory::MemoryOnChip(b) => format!("onchip{}", b),
        VariableMemory::Dummy => "dummy".into(),
    }
}

fn value_json(v: &VariableValue) -> String {
    match v {
        VariableValue::Int(i) => format!("[\"int\",{}]", i),
        VariableValue::LowPtr((s, o)) => format!("[\"lo\",{},{}]", js(s), o),
        VariableValue::HiPtr((s, o)) => format!("[\"hi\",{},{}]", js(s), o),
    }
}

fn def_json(d: &VariableDefinition) -> String {
    match d {
        VariableDefinition::None => "[\"none\"]".into(),
        VariableDefinition::Value(v) => format!("[\"value\",{}]", value_json(v)),
        VariableDefinition::Array(a) => {
            let v: Vec<String> = a.iter().map(value_json).collect();
            format!("[\"array\",[{}]]", v.join(","))
        }
        VariableDefinition::ArrayOfPointers(a) => {
            let v: Vec<String> = a.iter().map(|(s, o)| format!("[{},{}]", js(s), o)).collect();
            format!("[\"ptrs\",[{}]]", v.join(","))
        }
    }
}

fn type_name(t: &VariableType) -> &'static str {
    match t {
        VariableType::Char => "char",
        VariableType::Short => "short",
        VariableType::CharPtr => "charptr",
        VariableType::CharPtrPtr => "charptrptr",
        VariableType::ShortPtr => "shortptr",
    }
}

fn vars_json(cs: &CompilerState) -> String {
    let v: Vec<String> = cs
        .sorted_variables()
        .iter()
        .map(|(n, v)| {
            format!(
                "{{\"name\":{},\"type\":\"{}\",\"const\":{},\"signed\":{},\"mem\":\"{}\",\"size\":{},\"align\":{},\"global\":{},\"def\":{}}}",
                js(n), type_name(&v.var_type), v.var_const, v.signed, memory_name(&v.memory), v.size, v.alignment, v.global, def_json(&v.def)
            )
        })
        .collect();
    format!("[{}]", v.join(","))
}

fn scheme_of(cs: &CompilerState) -> &'static str {
    if cs.context.get_macro("__3E__").is_some() {
        "3E"
    } else if cs.context.get_macro("__3E_PLUS__").is_some() {
        "3EP"
    } else {
        "4K"
    }
}

// Same generation loop as the repository's test builder (src/tests/build.rs): per function in
// sorted order, reset the `for`/`if` counters, generate, optimise iff level > 0, check branches.
fn verif_build(cs: &CompilerState, writer: &mut dyn Write, args: &Args) -> Result<(), Error> {
    let mode = JOB.with(|j| j.borrow().mode);
    match mode {
        1 => return asm_matrix(cs, writer, args),
        2 => return call_tree(cs, writer, args),
        _ => {}
    }
    let scheme = scheme_of(cs);
    let mut funcs_json: Vec<String> = Vec::new();
    let mut pre: HashMap<String, String> = HashMap::new();
    let inuse;
    let mut tree: Vec<String> = Vec::new();
    {
        let mut g = GeneratorState::new(cs, writer, args.insert_code, args.warnings.clone(), scheme);
        g.write("\tPROCESSOR 6502\n\n")?;
        for f in cs.sorted_functions().iter() {
            if f.1.code.is_some() {
                g.current_bank = f.1.bank;
                g.local_label_counter_for = 0;
                g.local_label_counter_if = 0;
                g.functions_code.insert(f.0.clone(), AssemblyCode::new());
                g.current_function = Some(f.0.clone());
                g.generate_statement(f.1.code.as_ref().unwrap())?;
                g.current_function = None;
                pre.insert(f.0.clone(), code_json(g.functions_code.get(f.0).unwrap()));
                let mut removed = 0;
                if args.optimization_level > 0 {
                    removed = g.optimize_function(f.0);
                }
                let mid = code_json(g.functions_code.get(f.0).unwrap());
                let fixes = g.check_branches(f.0);
                pre.insert(format!("{}#mid", f.0), mid);
                pre.insert(format!("{}#counts", f.0), format!("{},{}", removed, fixes));
            }
        }
        g.compute_functions_actually_in_use()?;
        for f in cs.sorted_functions().iter() {
            if f.1.code.is_some() {
                g.write(&format!("\n{}\tSUBROUTINE\n", f.0))?;
                g.write_function(f.0)?;
            }
        }
        for f in cs.sorted_functions().iter() {
            let (code, size) = match g.functions_code.get(f.0) {
                Some(c) => (code_json(c), c.size_bytes().to_string()),
                None => ("null".to_string(), "null".to_string()),
            };
            let counts = pre.get(&format!("{}#counts", f.0)).cloned().unwrap_or("0,0".into());
            funcs_json.push(format!(
                "{{\"name\":{},\"inline\":{},\"interrupt\":{},\"bank\":{},\"has_code\":{},\"locals\":[{}],\"code\":{},\"size\":{},\"generated\":{},\"optimized\":{},\"counts\":[{}]}}",
                js(f.0), f.1.inline, f.1.interrupt, f.1.bank, f.1.code.is_some(),
                f.1.local_variables.iter().map(|s| js(s)).collect::<Vec<_>>().join(","),
                code, size,
                pre.get(f.0).cloned().unwrap_or("null".into()),
                pre.get(&format!("{}#mid", f.0)).cloned().unwrap_or("null".into()),
                counts
            ));
        }
        let mut keys: Vec<&String> = g.functions_call_tree.keys().collect();
        keys.sort();
        for k in keys {
            let v = &g.functions_call_tree[k];
            tree.push(format!("[{},[{}]]", js(k), v.iter().map(|s| js(s)).collect::<Vec<_>>().join(",")));
        }
        let mut iu: Vec<&String> = g.functions_actually_in_use.iter().collect();
        iu.sort();
        inuse = iu.iter().map(|s| js(s)).collect::<Vec<_>>().join(",");
    }
    let mapped: Vec<String> = cs
        .mapped_lines
        .iter()
        .map(|(f, l, inc)| match inc {
            Some((g, m)) => format!("[{},{},{},{}]", js(f), l, js(g), m),
            None => format!("[{},{},null,null]", js(f), l),
        })
        .collect();
    let lits: Vec<String> = cs.context.literal_strings.iter().map(|s| js(s)).collect();
    let r = format!(
        "\"scheme\":\"{}\",\"vars\":{},\"funcs\":[{}],\"tree\":[{}],\"inuse\":[{}],\"pre\":{},\"mapped\":[{}],\"literals\":[{}]",
        scheme, vars_json(cs), funcs_json.join(","), tree.join(","), inuse, js(cs.preprocessed_utf8), mapped.join(","), lits.join(",")
    );
    JOB.with(|j| j.borrow_mut().result = r);
    Ok(())
}

// H3: queries "<mn> <kind> <namehex> <eight 0/1> <off> <hi 0/1> <prot 0/1>"
fn asm_matrix(cs: &CompilerState, writer: &mut dyn Write, args: &Args) -> Result<(), Error> {
    let (scheme, queries) = JOB.with(|j| {
        let j = j.borrow();
        (j.scheme.clone(), j.queries.clone())
    });
    let mut out: Vec<String> = Vec::new();
    {
        let mut g = GeneratorState::new(cs, writer, args.insert_code, args.warnings.clone(), &scheme);
        for q in &queries {
            let f: Vec<&str> = q.split(' ').collect();
            let mn = match mnemonic_of(f[0]) {
                Some(m) => m,
                None => {
                    out.push("\"badreq\"".into());
                    continue;
                }
            };
            let kind: u8 = f[1].parse().unwrap_or(0);
            let name = unhexs(f[2]);
            let eight = f[3] == "1";
            let off: i32 = f[4].parse().unwrap_or(0);
            let hi = f[5] == "1";
            let prot = f[6] == "1";
            let r = std::panic::catch_unwind(std::panic::AssertUnwindSafe(|| {
                g.verif_asm(mn, kind, &name, eight, off, hi, prot)
            }));
            out.push(match r {
                Ok(Ok(Some(i))) => line_json(&VerifLine::Instruction(i)),
                Ok(Ok(None)) => "\"nothing\"".into(),
                Ok(Err(_)) => "\"err\"".into(),
                Err(_) => "\"panic\"".into(),
            });
        }
    }
    let r = format!("\"vars\":{},\"answers\":[{}]", vars_json(cs), out.join(","));
    JOB.with(|j| j.borrow_mut().result = r);
    Ok(())
}

// C12: queries "<fnhex> <calleehex>,<calleehex>,..." overwrite the published call tree
fn call_tree(cs: &CompilerState, writer: &mut dyn Write, args: &Args) -> Result<(), Error> {
    let queries = JOB.with(|j| j.borrow().queries.clone());
    let inuse;
    {
        let mut g = GeneratorState::new(cs, writer, args.insert_code, args.warnings.clone(), "4K");
        for q in &queries {
            let f: Vec<&str> = q.split(' ').collect();
            let callees: Vec<String> = if f.len() < 2 || f[1] == "-" || f[1].is_empty() {
                Vec::new()
            } else {
                f[1].split(',').map(unhexs).collect()
            };
            g.functions_call_tree.insert(unhexs(f[0]), callees);
        }
        g.compute_functions_actually_in_use()?;
        let mut iu: Vec<&String> = g.functions_actually_in_use.iter().collect();
        iu.sort();
        inuse = iu.iter().map(|s| js(s)).collect::<Vec<_>>().join(",");
    }
    let mut ints: Vec<String> = cs.functions.iter().filter(|f| f.1.interrupt).map(|f| js(f.0)).collect();
    ints.sort();
    JOB.with(|j| j.borrow_mut().result = format!("\"inuse\":[{}],\"interrupts\":[{}]", inuse, ints.join(",")));
    Ok(())
}

// ---------- request handling ----------

struct Req {
    level: String,
    flags: Vec<String>,
    src: Vec<u8>,
    defines: Vec<String>,
    files: Vec<(String, Vec<u8>)>,
    name: String,
}

fn parse_common(toks: &[&str]) -> Req {
    // <O> <flags|-> <srchex> [D=<hex>]* [F=<namehex>:<contenthex>]* [M=<namehex>]
    let mut r = Req {
        level: toks[0].to_string(),
        flags: if toks[1] == "-" { vec![] } else { toks[1].split(',').map(|s| s.to_string()).collect() },
        src: unhex(toks[2]),
        defines: vec![],
        files: vec![],
        name: "main.c".to_string(),
    };
    for t in &toks[3..] {
        if let Some(d) = t.strip_prefix("D=") {
            r.defines.push(unhexs(d));
        } else if let Some(f) = t.strip_prefix("F=") {
            let mut p = f.splitn(2, ':');
            let n = unhexs(p.next().unwrap());
            let c = unhex(p.next().unwrap_or("-"));
            r.files.push((n, c));
        } else if let Some(m) = t.strip_prefix("M=") {
            r.name = unhexs(m);
        }
    }
    r
}

fn write_files(files: &[(String, Vec<u8>)]) -> Option<String> {
    if files.is_empty() {
        return None;
    }
    let base = std::env::var("VH_TMP").unwrap_or("/tmp/vh_tmp".to_string());
    let dir = format!("{}/inc_{}", base, std::process::id());
    let _ = std::fs::remove_dir_all(&dir);
    std::fs::create_dir_all(&dir).ok()?;
    for (n, c) in files {
        let p = format!("{}/{}", dir, n);
        if let Some(parent) = std::path::Path::new(&p).parent() {
            let _ = std::fs::create_dir_all(parent);
        }
        std::fs::write(&p, c).ok()?;
    }
    Some(dir)
}

fn make_args(r: &Req, incdir: &Option<String>) -> Args {
    let mut a: Vec<String> = vec!["cc".into(), r.name.clone(), format!("-O{}", r.level)];
    for d in &r.defines {
        a.push(format!("-D{}", d));
    }
    if let Some(d) = incdir {
        a.push(format!("-I{}", d));
    }
    for f in &r.flags {
        match f.as_str() {
            "ic" => a.push("--insert-code".into()),
            "sc" => a.push("--fsigned_char".into()),
            w if w.starts_with("W") => a.push(format!("-{}", w)),
            _ => {}
        }
    }
    Args::parse_from(a)
}

fn run_compile(r: Req, mode: u8, scheme: String, queries: Vec<String>) -> String {
    let incdir = write_files(&r.files);
    let args = make_args(&r, &incdir);
    JOB.with(|j| {
        let mut j = j.borrow_mut();
        j.mode = mode;
        j.scheme = scheme;
        j.queries = queries;
        j.result = String::new();
    });
    let src = r.src.clone();
    let res = std::panic::catch_unwind(std::panic::AssertUnwindSafe(|| {
        let mut out: Vec<u8> = Vec::new();
        let e = compile(&src[..], &mut out, &args, verif_build);
        (e, out)
    }));
    if let Some(d) = incdir {
        let _ = std::fs::remove_dir_all(d);
    }
    match res {
        Ok((Ok(()), out)) => {
            let body = JOB.with(|j| j.borrow().result.clone());
            format!("{{\"status\":\"ok\",\"out\":\"{}\",{}}}", hex(&out), body)
        }
        Ok((Err(e), _)) => format!("{{\"status\":\"err\",\"err\":{}}}", err_json(&e)),
        Err(p) => {
            let msg = if let Some(s) = p.downcast_ref::<String>() {
                s.clone()
            } else if let Some(s) = p.downcast_ref::<&str>() {
                s.to_string()
            } else {
                "panic".to_string()
            };
            let loc = LAST_PANIC.with(|l| l.borrow().clone());
            format!("{{\"status\":\"panic\",\"msg\":{},\"where\":{}}}", js(&msg), js(&loc))
        }
    }
}

thread_local! {
    static LAST_PANIC: RefCell<String> = RefCell::new(String::new());
}

fn run_cpp(toks: &[&str]) -> String {
    // cpp <srchex> [D=..]* [F=..]* [M=name]
    let mut t2: Vec<&str> = vec!["0", "-"];
    t2.extend_from_slice(toks);
    let r = parse_common(&t2);
    let incdir = write_files(&r.files);
    let res = std::panic::catch_unwind(std::panic::AssertUnwindSafe(|| {
        let mut ctx = cc6502::verif::Context::new(&r.name);
        if let Some(d) = &incdir {
            ctx.include_directories = vec![d.clone()];
        }
        for d in &r.defines {
            let mut s = d.splitn(2, '=');
            let def = s.next().unwrap().to_string();
            let value = s.next().unwrap_or("1").to_string();
            ctx.define(def, value);
        }
        let mut out: Vec<u8> = Vec::new();
        let m = cc6502::verif::process(&r.src[..], &mut out, &mut ctx, false);
        (m, out, ctx.literal_strings.clone())
    }));
    if let Some(d) = incdir {
        let _ = std::fs::remove_dir_all(d);
    }
    match res {
        Ok((Ok(m), out, lits)) => {
            let mapped: Vec<String> = m
                .iter()
                .map(|(f, l, inc)| match inc {
                    Some((g, n)) => format!("[{},{},{},{}]", js(f), l, js(g), n),
                    None => format!("[{},{},null,null]", js(f), l),
                })
                .collect();
            let ls: Vec<String> = lits.iter().map(|s| js(s)).collect();
            format!(
                "{{\"status\":\"ok\",\"out\":\"{}\",\"mapped\":[{}],\"literals\":[{}]}}",
                hex(&out), mapped.join(","), ls.join(",")
            )
        }
        Ok((Err(e), _, _)) => format!("{{\"status\":\"err\",\"err\":{}}}", err_json(&e)),
        Err(_) => {
            let loc = LAST_PANIC.with(|l| l.borrow().clone());
            format!("{{\"status\":\"panic\",\"where\":{}}}", js(&loc))
        }
    }
}

fn run_lines(op: &str, toks: &[&str]) -> String {
    // opt|branch|optbranch <line tokens...> ; inline <n> <callee tokens> / <caller tokens>
    let r = std::panic::catch_unwind(std::panic::AssertUnwindSafe(|| -> Result<String, String> {
        match op {
            "opt" => {
                let mut c = code_of_tokens(toks)?;
                let n = c.optimize();
                Ok(format!("{{\"status\":\"ok\",\"count\":{},\"code\":{}}}", n, code_json(&c)))
            }
            "branch" => {
                let mut c = code_of_tokens(toks)?;
                let n = c.check_branches();
                Ok(format!("{{\"status\":\"ok\",\"count\":{},\"code\":{}}}", n, code_json(&c)))
            }
            "inline" => {
                let n: u32 = toks[0].parse().map_err(|_| "bad counter")?;
                let sep = toks.iter().position(|t| *t == "/").ok_or("no separator")?;
                let callee = code_of_tokens(&toks[1..sep])?;
                let mut caller = code_of_tokens(&toks[sep + 1..])?;
                caller.append_code(&callee, n);
                Ok(format!("{{\"status\":\"ok\",\"count\":0,\"code\":{}}}", code_json(&caller)))
            }
            _ => Err("bad op".into()),
        }
    }));
    match r {
        Ok(Ok(s)) => s,
        Ok(Err(e)) => format!("{{\"status\":\"badreq\",\"msg\":{}}}", js(&e)),
        Err(_) => {
            let loc = LAST_PANIC.with(|l| l.borrow().clone());
            format!("{{\"status\":\"panic\",\"where\":{}}}", js(&loc))
        }
    }
}

fn handle(line: &str) -> String {
    let toks: Vec<&str> = line.split(' ').filter(|s| !s.is_empty()).collect();
    if toks.is_empty() {
        return "{\"status\":\"badreq\"}".into();
    }
    match toks[0] {
        "compile" => run_compile(parse_common(&toks[1..]), 0, String::new(), vec![]),
        "asmmatrix" => {
            // asmmatrix <scheme> <srchex> <D=..>* | q1 | q2 ...   (queries separated by '|', fields by ',')
            let scheme = toks[1].to_string();
            let bar = toks.iter().position(|t| *t == "|").unwrap_or(toks.len());
            let mut t2: Vec<&str> = vec!["0", "-"];
            t2.extend_from_slice(&toks[2..bar]);
            let queries: Vec<String> = toks[bar..]
                .iter()
                .filter(|t| **t != "|")
                .map(|t| t.replace(',', " "))
                .collect();
            run_compile(parse_common(&t2), 1, scheme, queries)
        }
        "calltree" => {
            // calltree <srchex> | f=c1,c2 | g= ...
            let bar = toks.iter().position(|t| *t == "|").unwrap_or(toks.len());
            let mut t2: Vec<&str> = vec!["0", "-"];
            t2.extend_from_slice(&toks[1..bar]);
            let queries: Vec<String> = toks[bar..]
                .iter()
                .filter(|t| **t != "|")
                .map(|t| t.replacen('=', " ", 1))
                .collect();
            run_compile(parse_common(&t2), 2, String::new(), queries)
        }
        "cpp" => run_cpp(&toks[1..]),
        "opt" | "branch" | "inline" => run_lines(toks[0], &toks[1..]),
        "ping" => "{\"status\":\"pong\"}".into(),
        _ => "{\"status\":\"badreq\"}".into(),
    }
}

fn main() {
    std::panic::set_hook(Box::new(|info| {
        let loc = match info.location() {
            Some(l) => format!("{}:{}", l.file(), l.line()),
            None => "?".to_string(),
        };
        // the innermost function of the library on the stack: a call site that survives line shifts
        let bt = std::backtrace::Backtrace::force_capture().to_string();
        let mut func = String::from("?");
        for l in bt.lines() {
            let t = l.trim();
            if let Some(i) = t.find(": ") {
                let name = &t[i + 2..];
                if name.starts_with("cc6502::") || name.starts_with("<cc6502::") {
                    func = name.to_string();
                    break;
                }
            }
        }
        LAST_PANIC.with(|l| *l.borrow_mut() = format!("{}@{}", loc, func));
    }));
    let timeout_ms: u64 = std::env::var("VH_TIMEOUT_MS").ok().and_then(|s| s.parse().ok()).unwrap_or(3000);
    let stdin = std::io::stdin();
    let stdout = std::io::stdout();
    for line in stdin.lock().lines() {
        let line = match line {
            Ok(l) => l,
            Err(_) => break,
        };
        // each request runs in its own thread so that a divergence is reported, not suffered
        let (tx, rx) = std::sync::mpsc::channel();
        let l2 = line.clone();
        std::thread::Builder::new()
            .stack_size(64 << 20)
            .spawn(move || {
                let r = handle(&l2);
                let _ = tx.send(r);
            })
            .unwrap();
        match rx.recv_timeout(std::time::Duration::from_millis(timeout_ms)) {
            Ok(r) => {
                let mut o = stdout.lock();
                let _ = writeln!(o, "@@{}", r);
                let _ = o.flush();
            }
            Err(std::sync::mpsc::RecvTimeoutError::Timeout) => {
                let mut o = stdout.lock();
                let _ = writeln!(o, "@@{{\"status\":\"timeout\"}}");
                let _ = o.flush();
                // the worker cannot be cancelled: leave, the driver restarts us
                std::process::exit(3);
            }
            Err(_) => {
                // worker died without answering (stack overflow aborts the process before this)
                let mut o = stdout.lock();
                let _ = writeln!(o, "@@{{\"status\":\"panic\",\"where\":\"-\"}}");
                let _ = o.flush();
            }
        }
    }
}
