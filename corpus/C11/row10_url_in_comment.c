char a; /* see http://x.y */ char b;
char c;
void main() { a = 1; b = 2; c = 3; }
