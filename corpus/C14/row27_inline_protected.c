unsigned char x, y;
inline void f() { x = 3; y = !(x > 2); }
void main() { f(); }
