unsigned char x, y;
void main() { x = 3; asm("LDA #5", 2); y = 3; }
