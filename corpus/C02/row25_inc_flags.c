unsigned char a, b, z;
void main() { if (a) { b++; if (a) z = 1; } }
