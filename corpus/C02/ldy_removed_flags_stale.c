unsigned char v0, r;
void main() { Y = 0; v0 -= 3; Y = 0; if (Y) r = 1; else r = 2; }
