char x;
void main() { x = 1; }
