unsigned char * const REG0 = 0x10;
unsigned char a;
void main() { load(REG0[0]); strobe(REG0); }
