#!/bin/bash
# Build the framework from files on disk only (offline). Run once after a fresh restore.
set -e
cd "$(dirname "$0")"
export CARGO_NET_OFFLINE=true
export PATH="$PATH:/usr/local/bin"
[ -f harness/Cargo.lock ] || cp /repo/Cargo.lock harness/Cargo.lock
(cd harness && cargo build --offline --target-dir target && cargo build --offline --target-dir target_a26 --features atari2600)
python3 tools/extract_tables.py || true
(cd lean && lake build)
echo setup-done
